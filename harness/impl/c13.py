"""C13 driver: real actors of the four flavours with exact arithmetic user functions."""
import json
import pickle

import cloudpickle

from forml import flow
from forml.flow._code.target import user
from forml.pipeline import wrap


class Native(flow.Actor):
    """Native actor with the default state codec."""

    def __init__(self, k=1, m=1):
        self.k, self.m, self.acc = k, m, None

    def train(self, features, labels, /):
        self.acc = (self.acc or 0) + self.k * features + labels

    def apply(self, features):
        if self.acc is None:
            raise RuntimeError('Actor not trained')
        return self.acc * self.m + features

    def get_params(self):
        return {'k': self.k, 'm': self.m}

    def set_params(self, **params):
        for key, value in params.items():
            setattr(self, key, value)


class NativeCodec(Native):
    """Native actor with its own codec whose state also carries the hyper-parameters."""

    def get_state(self):
        return json.dumps([self.k, self.m, self.acc]).encode()

    def set_state(self, state):
        if state:
            self.k, self.m, self.acc = json.loads(state.decode())


@wrap.Actor.train
def Decorated(state, features, labels, *, k=1, m=1):  # pylint: disable=invalid-name
    return (state or 0) + k * features + labels


@Decorated.apply
def Decorated(state, features, *, k=1, m=1):  # pylint: disable=invalid-name,function-redefined
    return state * m + features


@wrap.Actor.train
def DecoratedList(state, features, labels, *, k=1, m=1):  # pylint: disable=invalid-name
    """The same arithmetic with a MUTABLE state updated in place (as user train functions commonly do)."""
    state = state if state is not None else [0]
    state[0] += k * features + labels
    return state


@DecoratedList.apply
def DecoratedList(state, features, *, k=1, m=1):  # pylint: disable=invalid-name,function-redefined
    return state[0] * m + features


class Origin:
    """A third-party style estimator."""

    def __init__(self, k=1, m=1):
        self.k, self.m, self.acc = k, m, None

    def fit(self, features, labels):
        self.acc = (self.acc or 0) + self.k * features + labels

    def predict(self, features):
        if self.acc is None:
            raise RuntimeError('Actor not trained')
        return self.acc * self.m + features

    def get_params(self):
        return {'k': self.k, 'm': self.m}

    def set_params(self, **params):
        for key, value in params.items():
            setattr(self, key, value)


Wrapped = wrap.Actor.type(Origin, apply='predict', train='fit')
WrappedCallable = wrap.Actor.type(Origin, apply=lambda origin, x: origin.predict(x), train=lambda origin, x, y: origin.fit(x, y))


@wrap.Actor.apply
def StatelessFn(features, *, m=1):  # pylint: disable=invalid-name
    return features * m


FLAVOURS = {'native': Native, 'codec': NativeCodec, 'decorated': Decorated, 'decorated_list': DecoratedList, 'wrapped': Wrapped, 'wrapped_callable': WrappedCallable}


def observe(case):
    try:
        cls = FLAVOURS[case['flavour']]
        builder = cls.builder(k=case['k'], m=case['m'])
        actor = builder()
        if case.get('pickle_builder'):
            actor = cloudpickle.loads(cloudpickle.dumps(builder))()
        outs = []
        shared = user.Apply().functor(builder).preset_state()     # ONE functor object executed again and again
        for op in case['ops']:
            if op[0] in ('functor', 'functor_empty'):
                try:
                    outs.append(int(shared.execute(actor.get_state() if op[0] == 'functor' else b'', op[1])))
                except RuntimeError:
                    outs.append('untrained')
            elif op[0] == 'fork_train':
                # the exported state loaded into two rebuilt actors; the first trains on - the second must not notice
                _, x, y, z = op
                state = actor.get_state()
                try:
                    first = builder()
                    first.set_state(state)
                    first.train(x, y)
                    second = builder()
                    second.set_state(state)
                    outs.append(int(second.apply(z)))
                except RuntimeError:
                    outs.append('untrained')
            elif op[0] == 'train':
                actor.train(op[1], op[2])
                outs.append('silent')
            elif op[0] == 'apply':
                try:
                    outs.append(int(actor.apply(op[1])))
                except RuntimeError:
                    outs.append('untrained')
            elif op[0] == 'params':
                actor.set_params(k=op[1], m=op[2])
                outs.append('silent')
            elif op[0] == 'pickle':
                actor = cloudpickle.loads(cloudpickle.dumps(actor))
                outs.append('silent')
            elif op[0] == 'transfer':
                _, k, m, preset, x = op
                state = actor.get_state()
                twin_builder = builder.update(k=k, m=m)
                try:
                    if preset:
                        # the compiled code path: functor with a state preset executed with (state, x)
                        outs.append(int(user.Apply().functor(twin_builder).preset_state().execute(state, x)))
                    else:
                        twin = twin_builder()
                        twin.set_state(state)
                        outs.append(int(twin.apply(x)))
                except RuntimeError:
                    outs.append('untrained')
        return {'outs': outs, 'stateful': bool(cls.is_stateful()), 'stateless_fn': bool(StatelessFn.is_stateful())}
    except Exception as err:  # pylint: disable=broad-except
        return {'error': f'{type(err).__name__}: {err}'}
