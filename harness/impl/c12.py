"""C12 driver: real CrossVal / HoldOut evaluation and FullStack ensembling over symbolic actors."""
import json

from forml import evaluation, flow
from forml.pipeline import ensemble

from harness import flowsym
from harness.impl import c01, c03


def term_fn(name):
    def fn(*args):
        return ('app', name, 0, None, flowsym.freeze(args))

    return fn


def splitter(n):
    return flowsym.Stateful.builder('split', szout=2 * n)


class _CV:
    """Cross-validator handing out exactly the given (train, test) index pairs."""

    def __init__(self, pairs):
        self.pairs = pairs

    def split(self, features, labels=None, groups=None):
        return [(list(a), list(b)) for a, b in self.pairs]

    def get_n_splits(self, features=None, labels=None, groups=None):
        return len(self.pairs)


def cvfolds(case):
    import pandas

    from forml.pipeline import payload

    frame = pandas.DataFrame({'r': list(range(case['rows'])), 'v': [10 * i for i in range(case['rows'])]}, index=case.get('index'))
    labels = pandas.Series([100 + i for i in range(case['rows'])], index=case.get('index'))
    actor = payload.PandasCVFolds(crossvalidator=_CV(case['pairs']))
    actor.train(frame, labels)
    twin = payload.PandasCVFolds(crossvalidator=_CV([]))
    twin.set_state(actor.get_state())  # the forks applied to features and to labels share the trained state
    fparts = [list(map(int, p['r'])) for p in actor.apply(frame)]
    lparts = [[int(v) - 100 for v in p] for p in twin.apply(labels)]
    return {'features': fparts, 'labels': lparts}


def observe(case):
    try:
        if case['t'] == 'cvfolds':
            return cvfolds(case)
        if case['t'] == 'eval':
            n = case['folds']
            method = evaluation.HoldOut(splitter=splitter(2)) if case.get('holdout') else evaluation.CrossVal(splitter=splitter(n), nsplits=n)
            metric = evaluation.Function(term_fn('metric'), term_fn('reduce'))
            pipeline = c03.make_expr(case['expr']) >> evaluation.TrainTestScore(metric, method)
            composition = flow.Composition(c03.source(), pipeline)
            out, calls = c03.run_segment(composition.train, None)
            return json.loads(json.dumps({'value': out, 'max_calls': calls}))
        n = case['folds']

        def build():
            stack = ensemble.FullStack(
                *(c03.make_expr(b) for b in case['bases']),
                splitter=splitter(n), nsplits=n,
                appender=flowsym.Stateless.builder('append'), stacker=flowsym.Stateless.builder('stack'),
                reducer=flowsym.Stateless.builder('merge'),
            )
            inner = (c03.make_expr(case['scope']) >> stack) if case.get('scope') else stack
            pipeline = (c03.make_expr(case['pre']) >> inner) if case.get('pre') else inner
            pipeline = pipeline >> c03.make_operator({'apply': ['probe', 0, False], 'train': 'same'})
            return flow.Composition(c03.source(), pipeline)

        composition = build()
        persistent = list(composition.persistent)
        assets = c01.Assets(persistent, {})
        train_out, _ = c03.run_segment(composition.train, assets)
        composition2 = build()
        persistent2 = list(composition2.persistent)
        previous = dict(zip(persistent2, assets.committed or []))
        apply_out, _ = c03.run_segment(composition2.apply, c01.Assets(persistent2, previous))
        return json.loads(json.dumps({'train': train_out, 'apply': apply_out, 'nstates': len(assets.committed or [])}))
    except Exception as err:  # pylint: disable=broad-except
        import traceback

        return {'error': f'{type(err).__name__}: {err}', 'trace': traceback.format_exc()[-600:]}
