"""C11 driver: call sequences against the real graph construction API."""
from forml import flow
from forml.flow._graph import port as portmod

from harness import flowsym


def build(universe):
    nodes, first = [], {}
    for i, d in enumerate(universe):
        if d['k'] == 'future':
            nodes.append(flow.Future(d['szin'], d['szout']))
        elif d['gid'] in first:
            nodes.append(first[d['gid']].fork())
        else:
            node = flow.Worker(flowsym.builder(f"g{d['gid']}", d['stateful'], d['szout']), d['szin'], d['szout'])
            first[d['gid']] = node
            nodes.append(node)
    return nodes


def encode_port(p):
    if isinstance(p, portmod.Train):
        return 't'
    if isinstance(p, portmod.Label):
        return 'l'
    return ['a', int(p)]


def snapshot(nodes):
    ident = {id(n): i for i, n in enumerate(nodes)}
    out = []
    for n in nodes:
        outputs = [[[ident.get(id(s.node), -1), encode_port(s.port)] for s in subs] for subs in n.output]
        # never look a placeholder up in the registry: the lookup itself would insert it as a (hash/eq-colliding) key
        ports = sorted((encode_port(p) for p in flow.Subscription.ports(n)), key=str) if isinstance(n, flow.Worker) else []
        out.append([outputs, ports])
    return out


def observe(case):
    try:
        nodes = build(case['universe'])
    except Exception as err:  # pylint: disable=broad-except
        return {'error': f'{type(err).__name__}: {err}'}
    steps = []
    for op in case['ops']:
        try:
            if op[0] == 'sub':
                _, s, si, p, pi = op
                nodes[s][si].subscribe(nodes[p][pi])
            else:
                _, w, tp, ti, lp, li = op
                nodes[w].train(nodes[tp][ti], nodes[lp][li])
            ok = 'ok'
        except flow.TopologyError:
            ok = 'topology'
        except Exception as err:  # pylint: disable=broad-except
            ok = f'crash:{type(err).__name__}'
        steps.append([ok, snapshot(nodes)])
    return {'steps': steps}
