"""C01 driver: build a segment through the real graph API, compile it with the real compiler and execute the
resulting symbol table with an independent dependency-ordered interpreter (not a forml runner)."""
import json
import os
import uuid

import forml
from forml import flow

from harness import flowsym


class Assets:
    """Stub of asset.State: records loads, dumps and the commit.

    With `root` (a directory) the dumped states and the commit are kept in files, as the real registry does, so that the
    stub also works when dumper, loader and committer run in different processes (dask `processes` scheduler)."""

    def __init__(self, gids, previous, root=None):
        self.gids, self.previous = list(gids), dict(previous)
        self.dumped, self._committed, self.loads = {}, None, []
        self.root = root

    def __contains__(self, gid):
        return gid in self.gids

    def offset(self, gid):
        return self.gids.index(gid)

    def load(self, gid):
        self.loads.append(self.gids.index(gid))
        prev = self.previous.get(gid)
        if prev is None:
            raise forml.MissingError('no previous generation')
        return json.dumps(prev).encode()

    def dump(self, state):
        sid = uuid.uuid4()
        if self.root is not None:
            with open(os.path.join(self.root, f'state-{sid}.json'), 'w', encoding='utf-8') as out:
                out.write(state.decode())
        else:
            self.dumped[sid] = flowsym.freeze(json.loads(state.decode()))
        return sid

    def commit(self, states):
        if self.root is not None:
            target = os.path.join(self.root, 'committed.json')
            assert not os.path.exists(target), 'committed twice'
            with open(target, 'w', encoding='utf-8') as out:
                json.dump([json.load(open(os.path.join(self.root, f'state-{s}.json'), encoding='utf-8')) for s in states], out)
            return
        assert self._committed is None, 'committed twice'
        self._committed = [self.dumped[s] for s in states]

    @property
    def committed(self):
        if self.root is not None:
            target = os.path.join(self.root, 'committed.json')
            return flowsym.freeze(json.load(open(target, encoding='utf-8'))) if os.path.exists(target) else None
        return self._committed


def build(desc):
    """desc['nodes'] is topologically ordered; returns (nodes, segment)."""
    nodes, first = [], {}
    for d in desc['nodes']:
        if d['gid'] in first:
            node = first[d['gid']].fork()
        else:
            node = flow.Worker(flowsym.builder(d['name'], d['stateful'], d['szout'], d.get('hp', 0)), d['szin'], d['szout'])
            first[d['gid']] = node
        nodes.append(node)
    # connection calls in the requested order (this determines the traversal order of the compiler)
    for k in desc.get('conn') or range(1, len(nodes)):
        d, node = desc['nodes'][k], nodes[k]
        if 'train' in d:
            (ts, tp), (ls, lp) = d['train'], d['label']
            node.train(nodes[ts][tp], nodes[ls][lp])
        else:
            for i, (src, port) in enumerate(d['inputs']):
                node[i].subscribe(nodes[src][port])
    segment = flow.Segment(nodes[0], nodes[desc['tail']])
    return nodes, segment


def interpret(symbols):
    """Evaluate every symbol once, dependencies first; returns {instruction: value} and per-instruction call counts."""
    table = {}
    for sym in symbols:
        assert sym.instruction not in table, 'instruction emitted twice'
        table[sym.instruction] = sym.arguments
    values, calls = {}, {}

    def evaluate(instruction):
        if instruction not in values:
            args = [evaluate(a) for a in table[instruction]]
            calls[instruction] = calls.get(instruction, 0) + 1
            values[instruction] = instruction(*args)
        return values[instruction]

    for instruction in table:
        evaluate(instruction)
    return values, calls


def describe(symbols, nodes, table, gids, system, user):
    """Position-based description of the emitted symbols: [[op, [argument positions]]]."""
    position = {id(sym.instruction): k for k, sym in enumerate(symbols)}
    owner = {}
    if table is not None:
        for k, node in enumerate(nodes):
            if node.uid in table._index:  # pylint: disable=protected-access
                owner[id(table._index[node.uid])] = k  # pylint: disable=protected-access
    out = []
    for sym in symbols:
        ins = sym.instruction
        if isinstance(ins, user.Functor):
            action, preset = ins.action, False
            if isinstance(action, user.SetState):
                action, preset = action._action, True  # pylint: disable=protected-access
            kind = 'train' if isinstance(action, user.Train) else 'apply' if isinstance(action, user.Apply) else '?'
            op = ['functor', owner.get(id(ins), -1), kind, preset]
        elif isinstance(ins, system.Loader):
            key = ins._key  # pylint: disable=protected-access
            op = ['loader', next((nodes.index(n) for n in nodes if n.gid == key), -1)]
        elif isinstance(ins, system.Dumper):
            op = ['dumper']
        elif isinstance(ins, system.Committer):
            op = ['committer']
        elif isinstance(ins, system.Getter):
            op = ['getter', ins.index]
        else:
            op = ['?', repr(ins)]
        out.append([op, [position.get(id(a), -1) for a in sym.arguments]])
    return out


def decode(value):
    if isinstance(value, bytes):
        return flowsym.freeze(json.loads(value.decode())) if value else None
    return value


def observe(case):
    try:
        nodes, segment = build(case)
    except flow.TopologyError as err:
        return {'error': f'build: {err}'}
    gids = [nodes[i].gid for i in case.get('persistent', [])] if case.get('persistent') is not None else None
    assets = None
    if gids is not None:
        assets = Assets(gids, {nodes[i].gid: case['previous'].get(str(i)) for i in case['persistent']})
    from forml.flow._code import compiler
    from forml.flow._code.target import system, user

    visit, tables = [], []

    class Recording(compiler.Table):
        """The real Table, additionally recording the order of its add() calls (the traversal order)."""

        def __init__(self, *args, **kwargs):
            super().__init__(*args, **kwargs)
            tables.append(self)

        def add(self, node):
            visit.append(next(i for i, n in enumerate(nodes) if n is node))
            super().add(node)

    original = compiler.Table
    compiler.Table = Recording
    try:
        symbols = flow.compile(segment, assets)
    except Exception as err:  # pylint: disable=broad-except
        return {'error': f'compile: {type(err).__name__}: {err}', 'visit': visit}
    finally:
        compiler.Table = original
    table = describe(symbols, nodes, tables[-1] if tables else None, gids, system, user)
    try:
        values, calls = interpret(symbols)
    except Exception as err:  # pylint: disable=broad-except
        return {'error': f'run: {type(err).__name__}: {err}'}
    # map functor instructions back to nodes through their builders is ambiguous for forks: identify by result position
    by_builder = {}
    for instruction, value in values.items():
        if hasattr(instruction, 'builder'):
            by_builder.setdefault(id(instruction.builder), []).append((instruction, value))
    tail = nodes[case['tail']]
    sink = [v for i, v in values.items() if hasattr(i, 'builder') and i.builder is tail.builder and 'Train' not in repr(i.action)]
    out = {
        'visit': visit,
        'table': table,
        'sink': flowsym.freeze([decode(v) for v in sink]),
        'committed': None if assets is None else assets.committed,
        'loads': None if assets is None else sorted(assets.loads),
        'max_calls': max(calls.values()) if calls else 0,
        'functors': sum(1 for i in values if hasattr(i, 'builder')),
        'trained': sorted(json.dumps(decode(v)) for i, v in values.items() if hasattr(i, 'builder') and 'train' in repr(i.action).lower()),
    }
    return json.loads(json.dumps(out))


if __name__ == '__main__':
    import sys

    print(json.dumps(observe(json.loads(sys.argv[1]))))
