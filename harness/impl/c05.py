"""C05 driver: the real posix registry driven through histories, with process death injected at every file-system
primitive (and inside writes) of every commit / publish, observed by a fresh reader."""
import hashlib
import os
import pathlib
import shutil
import tempfile
import types
import uuid

import forml
from forml.io import asset
from forml.provider.registry.filesystem import posix

PROJECT = 'prj'


def sid(n):
    return uuid.UUID(int=n + 1)


def fake_package(tmp, version, payload):
    """Duck-typed file package: what Registry.push / Project.put read (manifest name/version, path)."""
    path = pathlib.Path(tmp) / f'pkg-{version}.4ml'
    path.write_bytes(payload)
    manifest = types.SimpleNamespace(name=asset.Project.Key(PROJECT), version=asset.Release.Key(version))
    return types.SimpleNamespace(manifest=manifest, path=path)


def reader_view(root):
    """What a fresh reader sees (fresh registry object, no caches): listings, tags, state bytes, package digests."""
    registry = posix.Registry(path=root)
    view = {}
    for project in registry.projects():
        rels = {}
        for release in registry.releases(project):
            pkg = pathlib.Path(root) / str(project) / str(release) / posix.Path.PKGFILE
            digest = hashlib.sha1(pkg.read_bytes()).hexdigest() if pkg.is_file() else 'dir'
            gens = {}
            for generation in registry.generations(project, release):
                try:
                    tag = registry.open(project, release, generation)
                    states = []
                    for s in tag.states:
                        states.append([s.int - 1, registry.read(project, release, generation, s).decode()])
                    gens[int(generation)] = {'states': states}
                except Exception as err:  # pylint: disable=broad-except
                    gens[int(generation)] = {'unreadable': f'{type(err).__name__}'}
            rels[str(release)] = {'package': digest, 'generations': gens}
        view[str(project)] = rels
    return view


def perform(root, tmp, action):
    """Execute one action through the real asset levels / registry."""
    directory = asset.Directory(posix.Registry(path=root))
    if action[0] == 'publish':
        return directory.get(PROJECT).put(fake_package(tmp, action[1], f'package {action[1]}'.encode()))
    if action[0] == 'dump':
        _, release, n = action
        posix.Registry(path=root).write(asset.Project.Key(PROJECT), asset.Release.Key(release), sid(n), f'state {n}'.encode())
        return None
    _, release, states = action
    rel = directory.get(PROJECT).get(release)
    return rel.put(asset.Tag(training=asset.Tag.Training(None, None), states=[sid(n) for n in states]))


class _Crash(BaseException):
    pass


def count_or_crash(root, tmp, action, crash_at, partial):
    """Run the action in a forked child that dies at its crash_at-th file-system primitive (None = count them)."""
    rfd, wfd = os.pipe()
    pid = os.fork()
    if pid == 0:
        os.close(rfd)
        counter = {'n': 0}

        def tick():
            if crash_at is not None and counter['n'] == crash_at:
                os._exit(17)
            counter['n'] += 1

        orig_mkdir, orig_rename, orig_open = pathlib.Path.mkdir, pathlib.Path.rename, pathlib.Path.open
        orig_write_bytes, orig_copytree = pathlib.Path.write_bytes, shutil.copytree

        def mkdir(self, *a, **k):
            if not self.exists():
                tick()
            return orig_mkdir(self, *a, **k)

        def rename(self, target):
            tick()
            return orig_rename(self, target)

        def write_bytes(self, data):
            if crash_at is not None and counter['n'] == crash_at and partial:
                orig_write_bytes(self, data[: len(data) // 2])
                os._exit(17)
            tick()
            return orig_write_bytes(self, data)

        def opener(self, mode='r', *a, **k):
            handle = orig_open(self, mode, *a, **k)
            if 'w' in mode:
                if crash_at is not None and counter['n'] == crash_at:
                    if not partial:
                        handle.close()
                        os.unlink(self)
                        os._exit(17)
                    real_write = handle.write

                    def write(data):
                        real_write(data[: len(data) // 2])
                        handle.flush()
                        os._exit(17)

                    handle.write = write
                    return handle
                tick()
                # closing is a primitive of its own: dying before it loses whatever is still buffered in the process
                real_close = handle.close

                def close():
                    if not handle.closed:
                        tick()
                    return real_close()

                handle.close = close
            return handle

        pathlib.Path.mkdir, pathlib.Path.rename, pathlib.Path.open, pathlib.Path.write_bytes = mkdir, rename, opener, write_bytes
        code = 0
        try:
            perform(root, tmp, action)
        except forml.AnyError:
            code = 3
        except BaseException:  # pylint: disable=broad-except
            code = 4
        os.write(wfd, str(counter['n']).encode())
        os._exit(code)
    os.close(wfd)
    data = b''
    while chunk := os.read(rfd, 64):
        data += chunk
    os.close(rfd)
    _, status = os.waitpid(pid, 0)
    return (int(data) if data else None), os.waitstatus_to_exitcode(status)


def observe_long_lived(case):
    """One long-lived writer process (one Directory / Registry object kept over the whole history) performs the actions one
    by one; between the actions this (other) process reads the registry with a fresh reader."""
    import multiprocessing

    root = tempfile.mkdtemp(prefix='c05l_', dir='/var/tmp')
    tmp = tempfile.mkdtemp(prefix='c05lp_', dir='/var/tmp')
    ctx = multiprocessing.get_context('fork')

    def writer(conn):
        directory = asset.Directory(posix.Registry(path=root))
        registry = posix.Registry(path=root)
        handles = {}      # one Release handle per version, kept (with whatever it remembers) for the writer's life

        def release(version):
            if version not in handles:
                handles[version] = directory.get(PROJECT).get(version)
            return handles[version]

        while True:
            action = conn.recv()
            if action is None:
                return
            code = 0
            try:
                if action[0] == 'publish':
                    directory.get(PROJECT).put(fake_package(tmp, action[1], f'package {action[1]}'.encode()))
                elif action[0] == 'dump':
                    registry.write(asset.Project.Key(PROJECT), asset.Release.Key(action[1]), sid(action[2]), f'state {action[2]}'.encode())
                elif action[0] == 'peek':
                    rel = release(action[1])
                    try:
                        rel.get(None).tag          # what a training run does first: look at the latest generation
                    except forml.AnyError:
                        pass
                else:
                    release(action[1]).put(asset.Tag(training=asset.Tag.Training(None, None), states=[sid(n) for n in action[2]]))
            except forml.AnyError:
                code = 3
            except BaseException:  # pylint: disable=broad-except
                code = 4
            conn.send(code)

    pipes = [ctx.Pipe() for _ in range(2)]
    procs = [ctx.Process(target=writer, args=(child,), daemon=True) for _, child in pipes]
    for proc in procs:
        proc.start()
    try:
        steps = []
        for action in case['history']:
            before = reader_view(root)
            who = action[-1] if action[0] in ('commit', 'peek') and isinstance(action[-1], int) and len(action) == (4 if action[0] == 'commit' else 3) else 0
            parent = pipes[who][0]
            parent.send(action)
            if not parent.poll(120):
                return {'error': f'writer did not finish {action}'}
            code = parent.recv()
            steps.append({'before': before, 'after': reader_view(root), 'ok': code == 0, 'refused': code == 3, 'crashes': [], 'complete': None})
        for parent, _ in pipes:
            parent.send(None)
        import json

        return json.loads(json.dumps({'steps': steps}))
    except Exception as err:  # pylint: disable=broad-except
        return {'error': f'{type(err).__name__}: {err}'}
    finally:
        for proc in procs:
            proc.join(5)
            if proc.is_alive():
                proc.kill()
        shutil.rmtree(root, ignore_errors=True)
        shutil.rmtree(tmp, ignore_errors=True)


def observe(case):
    if case.get('long_lived'):
        return observe_long_lived(case)
    root = tempfile.mkdtemp(prefix='c05_', dir='/var/tmp')
    tmp = tempfile.mkdtemp(prefix='c05p_', dir='/var/tmp')
    try:
        steps = []
        for action in case['history']:
            before = reader_view(root)
            crashes = []
            if action[0] in ('publish', 'commit') and case.get('crash'):
                snapshot = root + '.snap'
                shutil.rmtree(snapshot, ignore_errors=True)
                shutil.copytree(root, snapshot)
                count, _ = count_or_crash(root, tmp, action, None, False)
                complete = reader_view(root)
                for k in range((count or 0) + 1):
                    for partial in (False, True):
                        shutil.rmtree(root)
                        shutil.copytree(snapshot, root)
                        _, code = count_or_crash(root, tmp, action, k, partial)
                        crashes.append({'at': k, 'partial': partial, 'died': code == 17, 'view': reader_view(root)})
                shutil.rmtree(root)
                shutil.copytree(snapshot, root)
                shutil.rmtree(snapshot, ignore_errors=True)
                steps_complete = complete
            else:
                steps_complete = None
            _, code = count_or_crash(root, tmp, action, None, False)
            after = reader_view(root)
            steps.append({'before': before, 'after': after, 'ok': code == 0, 'refused': code == 3, 'crashes': crashes,
                          'complete': steps_complete})
        import json

        return json.loads(json.dumps({'steps': steps}))
    except Exception as err:  # pylint: disable=broad-except
        import traceback

        return {'error': f'{type(err).__name__}: {err}', 'trace': traceback.format_exc()[-500:]}
    finally:
        shutil.rmtree(root, ignore_errors=True)
        shutil.rmtree(tmp, ignore_errors=True)
