"""C16 driver: one concurrent batch through the real serving Engine (real executors, worker processes, queues).

python -m harness.impl.c16 IN.json OUT.json      (FORML_VERIF=1 and FORML_VERIF_TRACE=<file> switch the scheduling trace on)
IN : {'apps': [[app, generation]...], 'mult': {generation: multiplier}, 'workers': k, 'list_delay': s,
      'requests': [{'app', 'value', 'delay', 'badenc', 'missing', 'arrival'}...]}
OUT: {'answers': [['ok', instance generation, value] | ['err', kind, text]...], 'trace': [[ts, pid, event, executor, ...]...]}
"""
import asyncio
import datetime
import json
import os
import pathlib
import sys
import tempfile
import uuid


def main(src, dst):
    import cloudpickle
    import forml
    from forml import application, io
    from forml.io import asset, layout
    from forml.provider.registry.filesystem import posix
    from forml.runtime import _service

    from harness import c16pkg

    doc = json.loads(open(src).read())
    tmp = pathlib.Path(tempfile.mkdtemp(prefix='c16', dir='/var/tmp'))
    registry = posix.Registry(tmp / 'registry')
    registry.push(c16pkg.PACKAGE)
    sid = uuid.UUID(bytes=b'\x00' * 16)
    for gen in sorted(int(g) for g in doc['mult']):
        registry.write('c16proj', '1', sid, cloudpickle.dumps(int(doc['mult'][str(gen)])))
        tag = asset.Tag(training=asset.Tag.Training(datetime.datetime(2020, 1, 1), datetime.datetime(2019, 1, 1)), states=[sid])
        registry.close('c16proj', '1', gen, tag)
    descriptors = [application.Generic(f'app{a}', application.Explicit('c16proj', '1', g)) for a, g in doc['apps']]
    inventory = c16pkg.Inventory(descriptors, doc.get('list_delay', 0.0))
    engine = _service.Engine(inventory, registry, io.Importer(c16pkg.Feed()), processes=doc['workers'])
    json_enc = layout.Encoding.parse('application/json')[0]

    def request(r):
        row = {'name': f"r{r['value']}", 'delay': r['delay'], 'value': r['value']}
        if r.get('permuted'):
            row = {'value': row['value'], 'name': row['name'], 'delay': row['delay']}     # same features, another column order
        if r.get('misnamed'):
            row = {('valve' if k == 'value' else k): v for k, v in row.items()}           # same dtypes, a feature under a wrong name
        elif r['missing']:
            del row['value']
        encoding = layout.Encoding.parse('foo/bar')[0] if r['badenc'] else json_enc
        accept = [layout.Encoding.parse('image/png')[0]] if r.get('badaccept') else [json_enc]
        return layout.Request(json.dumps([row]).encode(), encoding, accept=accept)

    done = {}

    async def one(k, r):
        if r.get('after') is not None:
            # a late arrival: submitted only once request `after` has been answered (others may still be in flight)
            await done[r['after']].wait()
        await asyncio.sleep(r['arrival'] / 1000)
        try:
            return await answer(r)
        finally:
            done[k].set()

    async def answer(r):
        try:
            response = await asyncio.wait_for(engine.apply(f"app{r['app']}", request(r)), 25)
            values = [v for row in json.loads(response.payload.data) for v in row.values()]
            return ['ok', str(response.instance), values]
        except asyncio.TimeoutError:
            return ['err', 'Timeout', 'no response within 25 s']
        except forml.AnyError as err:
            return ['err', type(err).__name__, str(err)[:160]]
        except Exception as err:  # pylint: disable=broad-except
            return ['err', type(err).__name__, str(err)[:160]]

    async def batch():
        for k in range(len(doc['requests'])):
            done[k] = asyncio.Event()
        return await asyncio.gather(*[one(k, r) for k, r in enumerate(doc['requests'])])

    try:
        answers = asyncio.run(batch())
    finally:
        try:
            engine.shutdown()
        except Exception:  # pylint: disable=broad-except
            pass
    trace = []
    path = os.environ.get('FORML_VERIF_TRACE')
    if path and os.path.exists(path):
        trace = [json.loads(line) for line in open(path) if line.strip()]
    open(dst, 'w').write(json.dumps({'answers': answers, 'trace': trace}))
    import shutil

    shutil.rmtree(tmp, ignore_errors=True)


if __name__ == '__main__':
    main(sys.argv[1], sys.argv[2])
