"""C08 driver: identity of real DSL objects built from descriptions."""
import pickle
import subprocess
import sys

from forml.io import dsl

from harness import dslgen


KINDS = {'int': dsl.Integer(), 'str': dsl.String(), 'float': dsl.Float(), 'bool': dsl.Boolean()}


def build(desc):
    if desc[0] in ('schema', 'stable', 'squery'):
        # a schema made of the given fields in the given order / a table over it / a query selecting all its columns
        schema = dsl.Schema.from_fields(*(dsl.Field(KINDS[k], name=n) for n, k in desc[1]))
        if desc[0] == 'schema':
            return schema
        table = dsl.Table(schema)
        return table if desc[0] == 'stable' else table.select(*(getattr(table, n) for n, _ in desc[1]))
    if desc[0] in ('table', 'ref', 'join', 'set', 'query'):
        return dslgen.build_source(desc)
    env = {'refs': {}}
    return getattr(dslgen.build_feature(desc, env), 'operable', None) or dslgen.build_feature(desc, env)


KIND_NAMES = ['Boolean', 'Integer', 'Float', 'Decimal', 'String', 'Date', 'Timestamp']


def kinds(case):
    """In a FRESH interpreter: instantiate the primitive kinds in the given order (identity must not depend on what
    already exists in the process), then compare every pair, their composites and fields differing only in the kind."""
    import json

    from harness import core

    code = (
        'import sys, json, pickle\n'
        'from forml.io import dsl\n'
        'order = json.loads(sys.argv[1])\n'
        'objs = {n: getattr(dsl, n)() for n in order}\n'
        'again = {n: getattr(dsl, n)() for n in reversed(order)}\n'
        'names = sorted(order)\n'
        'out = {"cls": {n: type(objs[n]).__name__ for n in names},\n'
        '       "eq": {a: [b for b in names if objs[a] == objs[b]] for a in names},\n'
        '       "again": {a: [b for b in names if again[a] == objs[b]] for a in names},\n'
        '       "hash": {a: [b for b in names if hash(objs[a]) == hash(objs[b])] for a in names},\n'
        '       "keys": len({objs[n]: 1 for n in names}),\n'
        '       "array": {a: [b for b in names if dsl.Array(objs[a]) == dsl.Array(objs[b])] for a in names},\n'
        '       "field": {a: [b for b in names if dsl.Field(objs[a], name="f") == dsl.Field(objs[b], name="f")] for a in names},\n'
        '       "pickle": {a: [b for b in names if pickle.loads(pickle.dumps(objs[a])) == objs[b]] for a in names}}\n'
        'print(json.dumps(out))\n'
    )
    res = subprocess.run(['/venv/bin/python', '-W', 'ignore', '-c', code, json.dumps(case['order'])], capture_output=True, text=True,
                         env=core.impl_env({'PYTHONHASHSEED': str(case.get('hashseed', 0))}), cwd=str(core.ROOT), timeout=300)
    if res.returncode:
        return {'error': f'child failed: {res.stderr[-300:]}'}
    return json.loads(res.stdout.strip().splitlines()[-1])


def observe(case):
    if 'order' in case:
        return kinds(case)
    try:
        # unrelated DSL objects created first: identity must not depend on what else exists in the process
        for extra in case.get('noise', []):
            build(extra)
        a, b = build(case['a']), build(case['b'])
        eq = bool(a == b)
        out = {
            'eq': eq,
            'hash_eq': hash(a) == hash(b),
            'set': len({a, b}),
            'hit': {a: 1}.get(b) is not None,
            'pickle_eq': bool(pickle.loads(pickle.dumps(a)) == a) and hash(pickle.loads(pickle.dumps(a))) == hash(a),
            'ne': bool(a != b) if not isinstance(a, dsl.Feature) else None,
        }
        # attribute access through the (cached) item getter must return each object's own parts
        if isinstance(a, dsl.Query) and isinstance(b, dsl.Query):
            out['own_parts'] = (a.prefilter is a[2] or a[2] is None) and repr(a.prefilter) == repr(tuple.__getitem__(a, 2)) \
                and repr(b.prefilter) == repr(tuple.__getitem__(b, 2)) and repr(b.rows) == repr(tuple.__getitem__(b, 6)) \
                and repr(b.selection) == repr(tuple.__getitem__(b, 1)) and repr(a.ordering) == repr(tuple.__getitem__(a, 5))
        return out
    except Exception as err:  # pylint: disable=broad-except
        return {'error': f'{type(err).__name__}: {err}'}


def cross_process(cases):
    """Pickle in this process, unpickle and compare in a fresh interpreter with another hash seed."""
    import json
    import os

    from harness import core

    blobs = []
    for c in cases:
        obj = build(c['a'])
        hash(obj)
        blobs.append(pickle.dumps(obj).hex())
    code = (
        'import sys, json, pickle\n'
        'from harness.impl import c08\n'
        'cases = json.load(open(sys.argv[1])); blobs = json.load(open(sys.argv[2]))\n'
        'out = []\n'
        'for c, b in zip(cases, blobs):\n'
        '    try:\n'
        '        o = pickle.loads(bytes.fromhex(b)); r = c08.build(c["a"])\n'
        '        out.append(bool(o == r) and hash(o) == hash(r) and ({r: 1}.get(o) == 1))\n'
        '    except Exception as err:\n'
        '        out.append(f"{type(err).__name__}: {err}")\n'
        'print(json.dumps(out))\n'
    )
    import tempfile

    with tempfile.TemporaryDirectory(dir='/var/tmp') as tmp:
        p1, p2 = os.path.join(tmp, 'c.json'), os.path.join(tmp, 'b.json')
        json.dump(cases, open(p1, 'w'))
        json.dump(blobs, open(p2, 'w'))
        res = subprocess.run(['/venv/bin/python', '-W', 'ignore', '-c', code, p1, p2], capture_output=True, text=True,
                             env=core.impl_env({'PYTHONHASHSEED': '4242'}), cwd=str(core.ROOT), timeout=600)
        if res.returncode:
            return [f'child failed: {res.stderr[-300:]}'] * len(cases)
        return json.loads(res.stdout.strip().splitlines()[-1])
