"""C03 / C04 driver: operator expressions built with the real wrap operators, composed with a symbolic source,
compiled in train and apply mode and executed by the independent interpreter."""
import json

from forml import flow
from forml.io._input import extract as extmod
from forml.pipeline import wrap

from harness import flowsym
from harness.impl import c01


class Skip(flow.Operator):
    """A skip connection: a fan node feeds the final stateful estimator E (its FIRST input) and a stateful branch Z whose
    output is E's second input. E is the tail of the segment unless something (a sink) is composed after it."""

    def __init__(self, z, e):
        self._z, self._e = z, e      # [name, hp]

    def compose(self, scope):
        left = scope.expand()
        kind = flowsym.Snapshot if SNAPSHOT else flowsym.Stateful
        fan = flow.Worker(flowsym.Stateless.builder('fan'), 1, 1)
        za = flow.Worker(kind.builder(self._z[0], hp=self._z[1] + HP_SHIFT), 1, 1)
        ea = flow.Worker(kind.builder(self._e[0], hp=self._e[1] + HP_SHIFT), 2, 1)
        ft, zt, et = fan.fork(), za.fork(), ea.fork()
        ea[0].subscribe(fan[0])
        za[0].subscribe(fan[0])
        ea[1].subscribe(za[0])
        et[0].subscribe(ft[0])
        zt[0].subscribe(ft[0])
        et[1].subscribe(zt[0])
        za.fork().train(ft[0], left.label.publisher)
        ea.fork().train(ft[0], left.label.publisher)
        return left.extend(flow.Segment(fan, ea), flow.Segment(ft, et))


class Par(flow.Operator):
    """Parallel stateful branches over the same input, merged again by a stateless N:1 worker (the map-reduce shape written
    against the public composition API: Trunk.use with explicitly extended tails)."""

    def __init__(self, branches):
        self._branches = branches      # [[name, hp], ...]

    def compose(self, scope):
        left = scope.expand()
        kind = flowsym.Snapshot if SNAPSHOT else flowsym.Stateful
        amerge = flow.Worker(flowsym.Stateless.builder('merge'), len(self._branches), 1)
        tmerge = amerge.fork()
        for idx, (name, hp) in enumerate(self._branches):
            apply = flow.Worker(kind.builder(name, hp=hp + HP_SHIFT), 1, 1)
            tapply = apply.fork()
            apply.fork().train(left.train.publisher, left.label.publisher)
            apply[0].subscribe(left.apply.publisher)
            amerge[idx].subscribe(apply[0])
            tapply[0].subscribe(left.train.publisher)
            tmerge[idx].subscribe(tapply[0])
        return left.use(apply=left.apply.extend(tail=amerge), train=left.train.extend(tail=tmerge))


class Api(flow.Operator):
    """The same operator spec written against the public composition API (flow.Worker / fork / train / Trunk.extend)
    instead of the wrap decorators: it extends ONLY the segments it has an actor for and, when asked, hangs a stateless
    monitoring sink (a tap, never published further) off the publisher of each segment it leaves alone."""

    def __init__(self, spec, cls):
        self._spec, self._cls = spec, cls

    def compose(self, scope):
        left = scope.expand()
        spec, groups = self._spec, {}

        def build(key, actor):
            worker = groups.setdefault(
                key, flow.Worker(self._cls(actor).builder(actor[0], hp=actor[1]), 1, 1)
            ).fork()
            if worker.stateful and not worker.derived:
                worker.fork().train(left.train.publisher, label_publisher)
            return worker

        parts = {}
        label_publisher = left.label.publisher
        if spec.get('label'):
            parts['label'] = build('label', spec['label'])
            label_publisher = parts['label'][0]
        if spec.get('apply'):
            parts['apply'] = build('apply', spec['apply'])
        if spec.get('train'):
            parts['train'] = build('apply', spec['apply']) if spec['train'] == 'same' else build('train', spec['train'])
        for name in spec.get('taps') or ():
            if name not in parts:
                sink = flow.Worker(flowsym.Stateless.builder(f'tap-{name}'), 1, 1)
                sink[0].subscribe(getattr(left, name).publisher)
        return left.extend(**parts)


SNAPSHOT = False   # stateful actors restore their hyper-parameter from the state (flowsym.Snapshot)
HP_SHIFT = 0       # "the code changed": every hyper-parameter of this expansion is shifted by this much


def make_operator(spec):
    """spec: {'apply': actor|None, 'train': actor|'same'|None, 'label': actor|None}; actor = [name, hp, stateful]."""

    if spec.get('skip'):
        return Skip(*spec['skip'])
    if spec.get('par'):
        return Par(spec['par'])

    def cls(actor):
        return (flowsym.Snapshot if SNAPSHOT else flowsym.Stateful) if actor[2] else flowsym.Stateless

    if HP_SHIFT:
        spec = {k: ([v[0], v[1] + HP_SHIFT, v[2]] if k in ('apply', 'train', 'label') and isinstance(v, list) else v) for k, v in spec.items()}

    if spec.get('api'):
        return Api(spec, cls)

    op = None
    if spec.get('apply') and spec.get('train') == 'same':
        a = spec['apply']
        op = wrap.Operator.mapper(name=a[0], hp=a[1])(cls(a))
    else:
        if spec.get('apply'):
            a = spec['apply']
            op = wrap.Operator.apply(name=a[0], hp=a[1])(cls(a))
        if spec.get('train'):
            t = spec['train']
            deco = (op or wrap.Operator).train
            op = deco(name=t[0], hp=t[1])(cls(t))
    if spec.get('label'):
        lb = spec['label']
        deco = (op or wrap.Operator).label
        op = deco(name=lb[0], hp=lb[1])(cls(lb))
    return op()


def make_expr(tree):
    """tree: ['op', spec] | ['seq', left, right] - the tree shape is the parenthesisation."""
    if tree[0] == 'op':
        return make_operator(tree[1])
    return make_expr(tree[1]) >> make_expr(tree[2])


def source():
    return extmod.Operator(
        flowsym.Source.builder('srcA'),
        flowsym.Source.builder('srcT'),
        flowsym.Stateless.builder('slice', szout=2),
    )


def tail_value(symbols, values, segment_tail_builder):
    for ins, value in values.items():
        if hasattr(ins, 'builder') and ins.builder is segment_tail_builder and 'train' not in repr(ins.action).lower():
            return c01.decode(value)
    return None


class _Tail(flow.Visitor):
    """Collect the workers of a segment in visiting order."""

    def __init__(self):
        self.nodes = []

    def visit_node(self, node):
        self.nodes.append(node)


def run_segment(segment, assets):
    symbols = flow.compile(segment, assets)
    values, calls = c01.interpret(symbols)
    # the value the segment publishes: the (non-training) functor of its tail worker
    tail = segment[1]
    if isinstance(tail, flow.Future):  # a segment nothing extended ends in a placeholder: its value is its publisher's
        visitor = _Tail()
        segment.accept(visitor)
        feeders = [n for n in visitor.nodes if isinstance(n, flow.Worker) and any(s.node is tail for p in n.output for s in p)]
        tail = feeders[0]
    leaves = [s.instruction for s in symbols if isinstance(s.instruction, flow.Functor)
              and s.instruction.builder is tail.builder and 'train' not in repr(s.instruction.action).lower()]
    return [c01.decode(values[i]) for i in leaves], max(calls.values())


def observe(case):
    try:
        composition = flow.Composition(source(), make_expr(case['expr']))
        persistent = list(composition.persistent)
        train_assets = c01.Assets(persistent, {})
        train_out, _ = run_segment(composition.train, train_assets)
        states = train_assets.committed
        # a fresh expansion (new node ids) for the apply mode, bound positionally to the committed states
        composition2 = flow.Composition(source(), make_expr(case['expr']))
        persistent2 = list(composition2.persistent)
        previous = {} if states is None else dict(zip(persistent2, states))
        apply_out, _ = run_segment(composition2.apply, c01.Assets(persistent2, previous))
        return json.loads(json.dumps({'train': train_out, 'apply': apply_out, 'states': states,
                                      'npersistent': [len(persistent), len(persistent2)]}))
    except Exception as err:  # pylint: disable=broad-except
        return {'error': f'{type(err).__name__}: {err}'}
