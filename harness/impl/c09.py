"""C09 driver: real Importer over minimal feeds with configured priorities; then the selected feed's real parser."""
import itertools

import forml
from forml import io, setup
from forml.io import dsl
from forml.provider.feed.reader import alchemy
from forml.setup import _conf
from sqlalchemy import sql

from harness import dslgen

_N = itertools.count()


def make_feed(alias, sources):
    def native(k, s):
        table = sql.table(sql.quoted_name(f'm{k}', quote=True))
        # statements (queries, sets) map to selects, everything else to a plain table
        return sql.select(sql.column('id')).select_from(table) if s[0] in ('query', 'set') else table

    mapping = {dslgen.build_source(s): native(k, s) for k, s in enumerate(sources)}

    class F(io.Feed, alias=alias):
        @property
        def sources(self):
            return mapping

    return F, mapping


def observe(case):
    try:
        n = next(_N)
        feeds, maps = [], []
        section = {}
        for i, f in enumerate(case['pool']):
            alias = f'c09x{n}x{i}'
            cls, mapping = make_feed(alias, f['sources'])
            maps.append(mapping)
            if f['priority'] is None:
                feeds.append(cls())
            else:
                section[alias] = {'provider': alias, 'priority': f['priority']}
                feeds.append(alias)
        if section:
            _conf.CONFIG.update({'FEED': section})
        slots = [setup.Feed(f) if isinstance(f, str) else f for f in feeds]
        importer = io.Importer(*slots)
        results = []
        for desc in case.get('statements') or [case['statement']]:
            statement = dslgen.build_source(desc)
            try:
                chosen = importer.match(statement)
            except forml.MissingError:
                results.append({'selected': None, 'parses': None})
                continue
            index = next(i for i, f in enumerate(case['pool']) if type(chosen).__name__ == 'F' and chosen.sources is maps[i])
            parser = alchemy.Parser(maps[index], {})
            try:
                with parser:
                    statement.accept(parser)
                    parser.fetch()
                parses = True
            except dsl.UnprovisionedError:
                parses = False
            results.append({'selected': index, 'parses': parses})
        return results[0] if 'statement' in case else {'results': results}
    except Exception as err:  # pylint: disable=broad-except
        return {'error': f'{type(err).__name__}: {err}'}
