"""C07 driver: construct statements through the real DSL API; observe the verdict and the schema."""
from forml.io import dsl

from harness import dslgen

KINDNAME = {'Integer': 'int', 'Float': 'float', 'String': 'str', 'Boolean': 'bool', 'Date': 'date', 'Timestamp': 'timestamp'}


def observe(case):
    try:
        obj = dslgen.build_source(case['statement'])
    except dsl.GrammarError as err:
        return {'accepted': False, 'why': str(err)[:120]}
    except Exception as err:  # pylint: disable=broad-except
        return {'error': f'{type(err).__name__}: {str(err)[:200]}'}
    try:
        schema = [[f.name, KINDNAME.get(repr(f.kind), repr(f.kind))] for f in obj.schema]
        names = [getattr(c, 'name', None) for c in obj.features]
    except BaseException as err:  # pylint: disable=broad-except
        return {'accepted': True, 'schema_error': f'{type(err).__name__}: {str(err)[:200]}'}
    return {'accepted': True, 'schema': schema, 'names': names}
