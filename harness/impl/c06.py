"""C06 driver (parser level): the real alchemy parser output executed on sqlite and duckdb over generated table contents."""
import sqlalchemy
from forml.io import dsl
from forml.io.dsl import parser as parsmod
from forml.io.dsl._struct import series
from forml.provider.feed.reader import alchemy
from sqlalchemy import sql

from harness import dslgen

SQLTYPE = {'int': 'INTEGER', 'str': 'VARCHAR', 'bool': 'BOOLEAN', 'date': 'VARCHAR', 'timestamp': 'VARCHAR'}
ENGINES = {'sqlite': 'sqlite://', 'duckdb': 'duckdb:///:memory:'}


def norm(rows):
    return [[None if v is None else (int(v) if isinstance(v, bool) else (int(v) if hasattr(v, '__int__') and not isinstance(v, (str, float)) else v)) for v in r] for r in rows]


def load(conn, data):
    for t, rows in data.items():
        cols = dslgen.CATALOG[t]
        conn.execute(sql.text(f'CREATE TABLE "{t}" (' + ', '.join(f'"{c}" {SQLTYPE[k]}' for c, k in cols) + ')'))
        for r in rows:
            conn.execute(
                sql.text(f'INSERT INTO "{t}" VALUES (' + ', '.join(f':{c}' for c, _ in cols) + ')'),
                {c: r.get(c) for c, _ in cols},
            )


def parse(statement, names=None):
    tabs = dslgen.tables()
    sources = {tabs[t]: sql.table(sql.quoted_name((names or {}).get(t, t), quote=True)) for t in dslgen.CATALOG}
    with alchemy.Parser(sources, {}) as visitor:
        statement.accept(visitor)
        return visitor.fetch()


class Recorder(parsmod.Visitor):
    """The real Visitor (push-down automaton, contexts, origins) with generate_* assembling plain terms."""

    OPS = {'Addition': '+', 'Subtraction': '-', 'Multiplication': '*', 'Equal': '==', 'NotEqual': '!=', 'LessThan': '<', 'LessEqual': '<=',
           'GreaterThan': '>', 'GreaterEqual': '>=', 'And': 'and', 'Or': 'or'}
    AGGS = {'Count': 'count', 'Sum': 'sum', 'Min': 'min', 'Max': 'max', 'Avg': 'avg'}

    def resolve_feature(self, feature):
        try:
            return super().resolve_feature(feature)
        except dsl.UnprovisionedError:
            if isinstance(feature, dsl.Element):
                return feature.name
            raise

    def generate_element(self, origin, element):
        return ['column', list(origin), element]

    def generate_alias(self, feature, alias):
        return ['alias', feature, alias]

    def generate_literal(self, value, kind):
        return ['lit', value]

    def generate_expression(self, expression, arguments):
        name = expression.__name__
        if name in self.OPS:
            return ['bin', self.OPS[name], *arguments]
        if name == 'Not':
            return ['not', *arguments]
        if name in self.AGGS:
            return ['agg', self.AGGS[name], *arguments]
        raise ValueError(name)

    def generate_table(self, table, features, predicate):
        return ['table', table[1]]

    def generate_reference(self, instance, name):
        return ['ref', instance, name], ('R', name)

    def generate_join(self, left, right, condition, kind):
        return ['join', left, right, condition, kind.value]

    def generate_set(self, left, right, kind):
        return ['set', left, right, kind.value]

    def generate_query(self, source, features, where, groupby, having, orderby, rows):
        return ['query', source, list(features), where, list(groupby), having, [[f, d.value] for f, d in orderby],
                None if rows is None else [rows.count, rows.offset]]


def describe_feature(f):
    """The description (harness/dslgen.py format) of a real DSL feature object."""
    if isinstance(f, series.Comparison.Pythonic):
        f = f.operable
    if isinstance(f, dsl.Aliased):
        return ['alias', describe_feature(f.operable), f.name]
    if isinstance(f, dsl.Literal):
        return ['lit', f.value]
    if isinstance(f, dsl.Column):
        names = {id(t): n for n, t in dslgen.tables().items()}
        return ['col', names[id(f.origin)], f.name]
    if isinstance(f, dsl.Element):
        return ['elem', f.origin.name, f.name]
    name = type(f).__name__
    if name in Recorder.OPS:
        return ['bin', Recorder.OPS[name], describe_feature(f[0]), describe_feature(f[1])]
    if name == 'Not':
        return ['not', describe_feature(f[0])]
    if name in Recorder.AGGS:
        return ['agg', Recorder.AGGS[name], describe_feature(f[0])]
    raise ValueError(f'unsupported feature {f!r}')


def describe(s):
    """The description of a real DSL source object."""
    if isinstance(s, dsl.Table):
        names = {id(t): n for n, t in dslgen.tables().items()}
        return ['table', names[id(s)]]
    if isinstance(s, dsl.Reference):
        return ['ref', describe(s.instance), s.name]
    if isinstance(s, dsl.Join):
        return ['join', s.kind.value, describe(s.left), describe(s.right), None if s.condition is None else describe_feature(s.condition)]
    if isinstance(s, dsl.Set):
        return ['set', s.kind.value, describe(s.left), describe(s.right)]
    if isinstance(s, dsl.Query):
        return ['query', describe(s.source), {
            'sel': [describe_feature(f) for f in s.selection],
            'pre': None if s.prefilter is None else describe_feature(s.prefilter),
            'grp': [describe_feature(f) for f in s.grouping],
            'post': None if s.postfilter is None else describe_feature(s.postfilter),
            'ord': [[describe_feature(o.feature), o.direction.value] for o in s.ordering],
            'rows': None if s.rows is None else [s.rows.count, s.rows.offset],
        }]
    raise ValueError(f'unsupported source {s!r}')


def record(statement):
    tabs = dslgen.tables()
    with Recorder({tabs[t]: ('T', t) for t in dslgen.CATALOG}, {}) as visitor:
        statement.accept(visitor)
        return visitor.fetch()


def observe(case):
    try:
        statement = dslgen.build_source(case['statement'])
    except Exception as err:  # pylint: disable=broad-except
        return {'skip': f'build {type(err).__name__}: {str(err)[:200]}'}
    try:
        query = parse(statement)
        text = str(query.compile(compile_kwargs={'literal_binds': True})).replace('\n', ' ')
    except Exception as err:  # pylint: disable=broad-except
        return {'parse_error': f'{type(err).__name__}: {str(err)[:300]}'}
    out = {'sql': text[:600]}
    try:
        out['described'] = describe(statement)
        out['term'] = record(statement)
    except Exception as err:  # pylint: disable=broad-except
        out['term_error'] = f'{type(err).__name__}: {str(err)[:200]}'
    for name, url in ENGINES.items():
        engine = sqlalchemy.create_engine(url)
        try:
            with engine.connect() as conn:
                load(conn, case['data'])
                try:
                    out[name] = {'rows': norm(conn.execute(query).fetchall())}
                except Exception as err:  # pylint: disable=broad-except
                    out[name] = {'error': f'{type(err).__name__}: {str(err)[:300]}'}
        finally:
            engine.dispose()
    return out
