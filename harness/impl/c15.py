"""C15 driver: real io.Feed.Reader entry handling and layout.Dense / layout.Frame operations."""
import numpy
import pandas

import forml
from forml import io
from forml.io import dsl, layout

KIND = {'int': dsl.Integer(), 'float': dsl.Float(), 'str': dsl.String(), 'bool': dsl.Boolean()}


class Reader(io.Feed.Reader):
    @classmethod
    def parser(cls, sources, features):
        raise NotImplementedError()

    @classmethod
    def read(cls, statement, **kwargs):
        raise NotImplementedError()


def pyval(v):
    tag, x = v
    return {'i': int, 's': str, 'b': bool}[tag](x)


def outval(x):
    if hasattr(x, 'item'):
        x = x.item()
    if isinstance(x, bool):
        return ['b', x]
    if isinstance(x, int):
        return ['i', x]
    if isinstance(x, str):
        try:
            return ['s', int(x)] if str(int(x)) == x else ['?', x]
        except ValueError:
            return ['?', x]
    return ['?', repr(x)]


def schema(fields):
    return dsl.Schema.from_fields(*(dsl.Field(KIND[k], name=n) for n, k in fields))


def tabular(flavour, rows, names, labels=None):
    pyrows = [[pyval(v) for v in r] for r in rows]
    if flavour == 'dense':
        return layout.Dense.from_rows(pyrows)
    frame = pandas.DataFrame(pyrows, columns=names).astype(object)
    if labels is not None:
        frame.index = labels
    return layout.Frame(frame)


def columns_of(tab):
    cols = tab.to_columns()
    return [[outval(x) for x in cols[j]] for j in range(len(cols))]


def rows_of(tab):
    rows = tab.to_rows()
    return [[outval(x) for x in rows[i]] for i in range(len(rows))]


def deliver(case):
    table = dsl.Table(schema(case['query']))
    statement = table.select(*(getattr(table, n) for n, _ in case['query']))
    entry = layout.Entry(schema(case['entry']), tabular(case['flavour'], case['rows'], [n for n, _ in case['entry']]))
    reader = Reader({}, {})
    try:
        result = reader(statement, entry)
    except forml.MissingError:
        return {'refused': True}
    return {'refused': False, 'columns': columns_of(result)}


def deliver_seq(case):
    """ONE long-lived reader and one statement serve several differently arranged entries in a row."""
    table = dsl.Table(schema(case['query']))
    statement = table.select(*(getattr(table, n) for n, _ in case['query']))
    reader = Reader({}, {})
    out = []
    for sub in case['entries']:
        entry = layout.Entry(schema(sub['entry']), tabular(sub['flavour'], sub['rows'], [n for n, _ in sub['entry']]))
        try:
            out.append({'refused': False, 'columns': columns_of(reader(statement, entry))})
        except forml.MissingError:
            out.append({'refused': True})
        except Exception as err:  # pylint: disable=broad-except
            out.append({'error': f'{type(err).__name__}: {err}'})
    return {'seq': out}


def matrix(case):
    names = [f'c{j}' for j in range(case['w'])]
    tab = tabular(case['flavour'], case['rows'], names, case.get('labels'))
    for kind, idx in case['ops']:
        tab = tab.take_rows(idx) if kind == 'rows' else tab.take_columns(idx)
    return {'rows': rows_of(tab), 'columns': columns_of(tab)}


def observe(case):
    try:
        return {'deliver': deliver, 'matrix': matrix, 'deliver_seq': deliver_seq}[case['t']](case)
    except Exception as err:  # pylint: disable=broad-except
        return {'error': f'{type(err).__name__}: {err}'}
