"""C06 driver (reader level): one process segment of a read history through the real alchemy feed.

python -m harness.impl.c06hist IN.json OUT.json   (FORML_HOME is set by the caller; it holds the feed's disk cache)
IN: {'dbs': [sqlite file per connection], 'statements': [descriptions], 'ops': [{'op': 'read', 'conn', 'stmt'} | {'op': 'mutate', 'conn', 'data'}]}
"""
import json
import sys

import sqlalchemy
from sqlalchemy import sql

from harness import dslgen
from harness.impl import c06


def canon(v):
    if v is None:
        return None
    try:
        import math

        if isinstance(v, float) and math.isnan(v):
            return None
        if isinstance(v, float) and v == int(v):
            return int(v)
    except Exception:  # pylint: disable=broad-except
        pass
    if hasattr(v, 'item'):
        v = v.item()
        return canon(v) if isinstance(v, float) else (int(v) if isinstance(v, bool) else v)
    return int(v) if isinstance(v, bool) else v


def mutate(path, data):
    engine = sqlalchemy.create_engine(f'sqlite:///{path}')
    with engine.begin() as conn:
        for t in dslgen.CATALOG:
            conn.execute(sql.text(f'DROP TABLE IF EXISTS "{t}"'))
        c06.load(conn, data)
    engine.dispose()


def main_monolite(doc, dst):
    """Inline-backed monolite feeds: a connection is a feed instance over its own rows of table B; `mutate` replaces the
    instance by one over new rows (a re-configured feed)."""
    from forml.provider.feed import monolite

    tabs = dslgen.tables()
    content = {int(k): v for k, v in doc.get('content', {}).items()}
    feeds, out = {}, []
    for op in doc['ops']:
        if op['op'] == 'mutate':
            content[op['conn']] = op['data']['B']
            feeds.pop(op['conn'], None)
            out.append({'done': True})
            continue
        try:
            statement = dslgen.build_source(doc['statements'][op['stmt']])
            if op['conn'] not in feeds:
                rows = [tuple(r[c] for c, _ in dslgen.CATALOG['B']) for r in content[op['conn']]]
                feeds[op['conn']] = monolite.Feed(inline={tabs['B']: rows})
            feed = feeds[op['conn']]
            producer = feed.producer(feed.sources, feed.features, **feed._readerkw)  # pylint: disable=protected-access
            out.append({'rows': [[canon(v) for v in r] for r in producer(statement).to_rows()]})
        except Exception as err:  # pylint: disable=broad-except
            out.append({'error': f'{type(err).__name__}: {str(err)[:300]}'})
    open(dst, 'w').write(json.dumps({'results': out, 'content': content}, default=str))


def main(src, dst):
    from forml.provider.feed import alchemy as feedmod

    doc = json.loads(open(src).read())
    if doc.get('kind') == 'monolite':
        return main_monolite(doc, dst)
    tabs = dslgen.tables()
    out = []
    feeds = {}
    for op in doc['ops']:
        if op['op'] == 'mutate':
            mutate(doc['dbs'][op['conn']], op['data'])
            out.append({'done': True})
            continue
        try:
            statement = dslgen.build_source(doc['statements'][op['stmt']])
            if op['conn'] not in feeds:
                feeds[op['conn']] = feedmod.Feed(sources={tabs[t]: t for t in dslgen.CATALOG}, connection=f"sqlite:///{doc['dbs'][op['conn']]}")
            feed = feeds[op['conn']]
            producer = feed.producer(feed.sources, feed.features, **feed._readerkw)  # pylint: disable=protected-access
            got = [[canon(v) for v in r] for r in producer(statement).to_rows()]
            query = c06.parse(statement)
            engine = sqlalchemy.create_engine(f"sqlite:///{doc['dbs'][op['conn']]}")
            with engine.connect() as conn:
                truth = c06.norm(conn.execute(query).fetchall())
            engine.dispose()
            out.append({'rows': got, 'truth': truth, 'sql': str(query.compile(compile_kwargs={'literal_binds': True}))})
        except Exception as err:  # pylint: disable=broad-except
            out.append({'error': f'{type(err).__name__}: {str(err)[:300]}'})
    open(dst, 'w').write(json.dumps(out, default=str))


if __name__ == '__main__':
    main(sys.argv[1], sys.argv[2])
