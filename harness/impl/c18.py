"""C18 driver: real Tag codec, level keys, listings, manifest and package round trips."""
import datetime
import pathlib
import shutil
import tempfile
import uuid

import forml
from forml import project
from forml.io import asset

EPOCH = datetime.datetime(2021, 3, 4, 5, 6, 7)


def ts(code):
    """Timestamp for a model scalar code (injective)."""
    if code is None:
        return None
    base = EPOCH + datetime.timedelta(seconds=code, microseconds=code % 7)
    return base


def ordinal(kind, code):
    if code is None:
        return None
    return {
        'int': code,
        'float': code + 0.5,
        'bool': bool(code % 2),
        'str': f'o{code}',
        'date': datetime.date(2020, 1, 1) + datetime.timedelta(days=code),
        'datetime': datetime.datetime(2020, 1, 1, 1, 2, 3) + datetime.timedelta(hours=code),
        'tzaware': datetime.datetime(2020, 1, 1, tzinfo=datetime.timezone.utc) + datetime.timedelta(hours=code),
    }[kind]


def sid(code):
    return uuid.UUID(int=code + 1)


def tag(case):
    built = asset.Tag(
        training=asset.Tag.Training(ts(case['trts']), ordinal(case['okind'], case['trord'])),
        tuning=asset.Tag.Tuning(ts(case['tuts']), None if case['tuscore'] is None else case['tuscore'] + 0.25),
        states=[sid(s) for s in case['states']],
    )
    loaded = asset.Tag.loads(built.dumps())
    # decode the loaded tag back to model codes through the same injective maps
    def code_ts(value):
        return None if value is None else int((value - EPOCH).total_seconds())

    def code_ord(value):
        if value is None:
            return None
        for code in range(0, 40):
            if ordinal(case['okind'], code) == value and type(ordinal(case['okind'], code)) is type(value):
                return code
        return -1

    return {
        'equal': bool(loaded == built) and loaded.states == built.states,
        'trts': code_ts(loaded.training.timestamp),
        'trord': code_ord(loaded.training.ordinal),
        'tuts': code_ts(loaded.tuning.timestamp),
        'tuscore': None if loaded.tuning.score is None else int(loaded.tuning.score - 0.25),
        'states': [s.int - 1 for s in loaded.states],
    }


def genkey(case):
    try:
        key = asset.Generation.Key(case['raw'])
    except asset.Generation.Key.Invalid:
        return {'key': None, 'next': None}
    return {'key': int(key), 'next': int(key.next)}


def parts(text):
    key = asset.Release.Key(text)
    pre = None if key.pre is None else [{'a': 0, 'b': 1, 'rc': 2}[key.pre[0]], key.pre[1]]
    return {'epoch': key.epoch, 'release': list(key.release), 'pre': pre, 'post': key.post, 'dev': key.dev}


def versions(case):
    try:
        a, b = asset.Release.Key(case['a']), asset.Release.Key(case['b'])
    except asset.Release.Key.Invalid:
        return {'invalid': True}
    cmp = 'Lt' if a < b else ('Gt' if a > b else 'Eq')
    consistent = (a == b) == (cmp == 'Eq') and (hash(a) == hash(b) or cmp != 'Eq')
    return {'cmp': cmp, 'consistent': consistent, 'a': parts(case['a']), 'b': parts(case['b'])}


def genlisting(case):
    listing = asset.Level.Listing(asset.Generation.Key(k) for k in case['keys'])
    try:
        last = int(listing.last)
    except asset.Level.Listing.Empty:
        last = None
    return {'listing': [int(k) for k in listing], 'last': last}


def rellisting(case):
    keys = [asset.Release.Key(k) for k in case['keys']]
    listing = asset.Level.Listing(keys)
    return {'listing': [str(k) for k in listing], 'parts': [parts(k) for k in case['keys']],
            'ranks': [next(i for i, k in enumerate(keys) if k == x) for x in listing]}


def manifest(case):
    tmp = pathlib.Path(tempfile.mkdtemp(prefix='c18_', dir='/var/tmp'))
    try:
        written = project.Manifest(case['name'], case['version'], case['package'], **case['modules'])
        written.write(tmp)
        read = project.Manifest.read(tmp)
        return {'equal': read == written, 'name': str(read.name), 'version': str(read.version), 'package': read.package,
                'modules': dict(read.modules)}
    finally:
        shutil.rmtree(tmp, ignore_errors=True)


SOURCE_TMPL = '''from forml import project
from forml.io import dsl


class T{marker}(dsl.Schema):
    x = dsl.Field(dsl.Integer())


project.setup(project.Source.query(T{marker}.select(T{marker}.x)))
'''
PIPELINE_TMPL = '''from forml import project
from forml.pipeline import wrap


@wrap.Operator.mapper
@wrap.Actor.apply
def op{marker}(x):
    return x


project.setup(op{marker}())
'''


def _write_package(tmp, sub, case):
    """Write a project package (directory or zip) whose manifest maps the components as the case says."""
    root = tmp / sub / 'src'
    pkgdir = root.joinpath(*case['package'].split('.'))
    pkgdir.mkdir(parents=True)
    level = root
    for part in case['package'].split('.'):
        level = level / part
        (level / '__init__.py').write_text('')
    modules = {}
    for component, tmpl in (('source', SOURCE_TMPL), ('pipeline', PIPELINE_TMPL)):
        rel = case['where'][component]            # module path relative to the package, e.g. 'source' or 'parts.input'
        target = pkgdir.joinpath(*rel.split('.'))
        target.parent.mkdir(parents=True, exist_ok=True)
        level = pkgdir
        for part in rel.split('.')[:-1]:
            level = level / part
            (level / '__init__.py').write_text('')
        target.with_suffix('.py').write_text(tmpl.format(marker=case['marker']))
        style = case['style'][component]
        if style == 'relative':
            modules[component] = rel
        elif style == 'absolute':
            modules[component] = f"{case['package']}.{rel}"
        # 'default': not listed - only legal when rel == component
    manifest_obj = project.Manifest(case['name'], case['version'], case['package'], **modules)
    if case['zip']:
        package = project.Package.create(root, manifest_obj, tmp / sub / 'pkg.4ml')
    else:
        manifest_obj.write(root)
        package = project.Package(root)
    return package, modules


def _forget(before, *packages):
    import sys

    tops = {p.split('.')[0] for p in packages}
    for name in set(sys.modules) - before:
        if name.split('.')[0] in tops:
            sys.modules.pop(name, None)


def install(case):
    """Write a project package, install it, load it."""
    import sys

    tmp = pathlib.Path(tempfile.mkdtemp(prefix='c18i_', dir='/var/tmp'))
    before = set(sys.modules)
    try:
        package, modules = _write_package(tmp, 'p', case)
        artifact = package.install(tmp / 'installed')
        components = artifact.components
        return {
            'source': repr(components.source.extract.train),
            'pipeline': repr(components.pipeline),
            'manifest_equal': package.manifest == project.Manifest(case['name'], case['version'], case['package'], **modules),
        }
    finally:
        _forget(before, case['package'])
        shutil.rmtree(tmp, ignore_errors=True)


def reinstall(case):
    """Two packages installed one after the other on the SAME target path (a re-published release on the staging path):
    the second install must yield the components of the second package."""
    import sys

    tmp = pathlib.Path(tempfile.mkdtemp(prefix='c18j_', dir='/var/tmp'))
    before = set(sys.modules)
    try:
        first, _ = _write_package(tmp, 'p1', case['first'])
        second, _ = _write_package(tmp, 'p2', case['second'])
        one = first.install(tmp / 'installed').components
        out = {'first': [repr(one.source.extract.train), repr(one.pipeline)]}
        _forget(before, case['first']['package'], case['second']['package'])
        two = second.install(tmp / 'installed').components
        out['second'] = [repr(two.source.extract.train), repr(two.pipeline)]
        return out
    finally:
        _forget(before, case['first']['package'], case['second']['package'])
        shutil.rmtree(tmp, ignore_errors=True)


class _Listing(asset.Registry):
    """In-memory registry stub recording under which key a committed generation is stored."""

    def __init__(self, keys):
        super().__init__(staging='/var/tmp/verif_c18_staging')
        self.keys, self.closed = list(keys), []

    def projects(self):
        return ['prj']

    def releases(self, project):
        return ['1']

    def generations(self, project, release):
        return list(self.keys)

    def open(self, project, release, generation):
        return asset.Tag()

    def close(self, project, release, generation, tag):
        self.closed.append(int(generation))
        self.keys.append(int(generation))

    def push(self, package):
        raise NotImplementedError()

    def pull(self, project, release):
        raise NotImplementedError()

    def read(self, project, release, generation, sid):
        raise NotImplementedError()

    def write(self, project, release, sid, state):
        raise NotImplementedError()


def nextgen(case):
    """Commit `commits` generations into a release whose existing generation keys are `keys` (possibly with holes)."""
    registry = _Listing(case['keys'])
    for _ in range(case['commits']):
        release = asset.Directory(registry).get('prj').get('1')
        release.put(asset.Tag(training=asset.Tag.Training(EPOCH, 1)))
    return {'closed': registry.closed}


def repackage(case):
    """A directory-based package (it carries its own manifest) is re-created as an archive under ANOTHER manifest."""
    import sys

    tmp = pathlib.Path(tempfile.mkdtemp(prefix='c18r_', dir='/var/tmp'))
    before = set(sys.modules)
    try:
        root = tmp / 'src'
        pkgdir = root / case['package']
        pkgdir.mkdir(parents=True)
        (pkgdir / '__init__.py').write_text('')
        (pkgdir / 'source.py').write_text(SOURCE_TMPL.format(marker=case['marker']))
        (pkgdir / 'pipeline.py').write_text(PIPELINE_TMPL.format(marker=case['marker']))
        project.Manifest(case['name'], case['old_version'], case['package']).write(root)     # the tree's own manifest
        new = project.Manifest(case['name'], case['new_version'], case['package'])
        created = project.Package.create(root, new, tmp / 'pkg.4ml')
        reread = project.Package(tmp / 'pkg.4ml')
        artifact = reread.install(tmp / 'installed')
        return {'created': str(created.manifest.version), 'reread': str(reread.manifest.version),
                'source': repr(artifact.components.source.extract.train)}
    finally:
        for name in set(sys.modules) - before:
            if name.split('.')[0] == case['package']:
                sys.modules.pop(name, None)
        shutil.rmtree(tmp, ignore_errors=True)


def observe(case):
    try:
        return {'tag': tag, 'genkey': genkey, 'versions': versions, 'genlisting': genlisting, 'rellisting': rellisting,
                'manifest': manifest, 'install': install, 'reinstall': reinstall, 'nextgen': nextgen, 'repackage': repackage}[case['t']](case)
    except Exception as err:  # pylint: disable=broad-except
        return {'error': f'{type(err).__name__}: {err}'}
