"""C02 driver: one compiled table executed by the reference interpreter, the pyfunc expression (twice) and the dask
runner under its local schedulers."""
import json
import os
import tempfile

import dask

from forml import flow
from forml.flow._code.target import user
from forml.provider.runner import dask as daskrun
from forml.provider.runner import pyfunc

from harness import flowsym
from harness.impl import c01


def build(desc, path):
    nodes, first, shared = [], {}, {}
    for k, d in enumerate(desc['nodes']):
        if d['gid'] in first:
            node = first[d['gid']].fork()
        else:
            if k == 0:
                builder = flowsym.Source.builder(d['name'], szout=d['szout'])
            elif k == desc['tail']:
                builder = flowsym.Recorder.builder(d['name'], path=path)
            elif not d['stateful']:
                # sibling actors whose builders differ only in a value with a lossy repr (a lambda)
                builder = flowsym.Stateless.builder('marked', szout=d['szout'], hp=0, mark=(lambda n=d['name'], h=d.get('hp', 0): (n, h)))
            else:
                builder = flowsym.builder(d['name'], d['stateful'], d['szout'], d.get('hp', 0))
                if desc.get('share'):
                    # worker groups created from ONE builder object (an operator composed twice, fold replicas, ...)
                    builder = shared.setdefault((d['name'], d['stateful'], d['szout'], d.get('hp', 0)), builder)
            node = flow.Worker(builder, d['szin'], d['szout'])
            first[d['gid']] = node
        nodes.append(node)
    for k in desc.get('conn') or range(1, len(nodes)):
        d, node = desc['nodes'][k], nodes[k]
        if 'train' in d:
            (ts, tp), (ls, lp) = d['train'], d['label']
            node.train(nodes[ts][tp], nodes[ls][lp])
        else:
            for i, (src, port) in enumerate(d['inputs']):
                node[i].subscribe(nodes[src][port])
    return nodes, flow.Segment(nodes[0], nodes[desc['tail']])


def describe(symbols):
    """Structural description of the table for the model (apply-mode tables only)."""
    ids = {}
    for sym in symbols:
        ids.setdefault(sym.instruction, len(ids))
    rows = []
    for sym in symbols:
        ins = sym.instruction
        if isinstance(ins, flow.Getter):
            kind = ['get', ins.index]
        elif isinstance(ins, flow.Loader):
            state = ins()
            kind = ['load', flowsym.freeze(json.loads(state.decode())) if state else None]
        elif isinstance(ins, flow.Functor):
            actor = ins.builder()
            params = actor.get_params()
            if user.Train in ins.action:
                return None
            preset = isinstance(ins.action, user.SetState)
            name, hp = params['mark']() if params.get('mark') else (params['name'], params.get('hp', 0))
            kind = ['funs' if preset else 'fun', name, hp, params.get('szout', 1)]
        else:
            return None
        rows.append([ids[ins], kind, [ids[a] for a in sym.arguments]])
    return rows


def last_line(path):
    if not os.path.exists(path):
        return None
    lines = [l for l in open(path).read().splitlines() if l.strip()]
    return json.loads(lines[-1]) if lines else None


def observe(case):
    tmp = tempfile.mkdtemp(prefix='c02_', dir='/var/tmp')
    path = os.path.join(tmp, 'sink.jsonl')
    try:
        nodes, segment = build(case, path)
        gids = None if case.get('persistent') is None else [nodes[i].gid for i in case['persistent']]

        def compiled(shared=False):
            assets = None
            if gids is not None:
                root = tempfile.mkdtemp(prefix='assets_', dir=tmp) if shared else None
                assets = c01.Assets(gids, {nodes[i].gid: case['previous'].get(str(i)) for i in case['persistent']}, root)
            return flow.compile(segment, assets), assets

        out = {}
        symbols, assets = compiled()
        out['table'] = describe(symbols)
        try:
            values, _ = c01.interpret(symbols)
            out['reference'] = {'sink': last_line(path), 'committed': None if assets is None else assets.committed}
        except Exception as err:  # pylint: disable=broad-except
            out['reference'] = {'crash': f'{type(err).__name__}: {err}'}
        if out['table'] is not None:
            os.path.exists(path) and os.unlink(path)
            symbols, _ = compiled()
            calls = []
            try:
                expression = pyfunc.Expression(symbols)
                for _ in range(2):
                    try:
                        expression(None)
                        calls.append({'sink': last_line(path)})
                    except Exception as err:  # pylint: disable=broad-except
                        calls.append({'crash': f'call: {type(err).__name__}: {err}'})
                        break
            except Exception as err:  # pylint: disable=broad-except
                calls = [{'crash': f'init: {type(err).__name__}: {err}'}]
            while len(calls) < 2:
                calls.append(calls[-1])
            out['pyfunc'] = calls
        out['dask'] = {}
        for scheduler in case.get('schedulers', ['synchronous', 'threads']):
            os.path.exists(path) and os.unlink(path)
            symbols, assets = compiled(shared=scheduler == 'processes')
            try:
                with dask.config.set(scheduler=scheduler):
                    daskrun.Runner.run(symbols)
                out['dask'][scheduler] = {'sink': last_line(path), 'committed': None if assets is None else assets.committed}
            except Exception as err:  # pylint: disable=broad-except
                out['dask'][scheduler] = {'crash': f'{type(err).__name__}: {err}'}
        return json.loads(json.dumps(out))
    except Exception as err:  # pylint: disable=broad-except
        return {'error': f'{type(err).__name__}: {err}'}
    finally:
        import shutil

        shutil.rmtree(tmp, ignore_errors=True)
