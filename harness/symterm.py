"""Printing of symbolic JSON terms (harness/flowsym.py) as Coq `Sym.term` literals."""
from harness.core import cl, cn, cz

NAMES = {}


def name_id(name) -> int:
    if name not in NAMES:
        NAMES[name] = len(NAMES)
    return NAMES[name]


def cterm(t) -> str:
    if t is None:
        return 'TNone'
    tag = t[0]
    if tag == 'app':
        _, name, hp, st, args = t
        return f"(TApp {cn(name_id(name))} {cz(-7 if hp is None else hp)} {cterm(st)} {cl([cterm(a) for a in args], 'term')})"
    if tag == 'proj':
        return f'(TProj {cn(t[1])} {cterm(t[2])})'
    if tag == 'state':
        _, name, hp, prev, feats, labels = t
        return f'(TState {cn(name_id(name))} {cz(-7 if hp is None else hp)} {cterm(prev)} {cterm(feats)} {cterm(labels)})'
    if tag == 'tup':
        return f"(TTup {cl([cterm(a) for a in t[1]], 'term')})"
    raise ValueError(f'not a symbolic term: {t!r}')


def size(t) -> int:
    if isinstance(t, (list, tuple)):
        return 1 + sum(size(x) for x in t)
    return 1
