"""CLI: ./check <ID> [--tier quick|thorough] [--replay FILE] | ./check --setup | ./check --all"""
import argparse
import importlib
import os
import sys

from harness import core


def load(pid: str) -> core.Prop:
    mod = importlib.import_module(f'harness.props.{pid.lower()}')
    return mod.PROP


def setup() -> int:
    """Generate all source-derived constants and build the whole development (full .vo)."""
    import pathlib

    failed = 0
    for path in sorted((core.ROOT / 'harness' / 'props').glob('c[0-9][0-9].py')):
        try:
            prop = load(path.stem.upper())
            core.write_generated(prop.generated())
        except Exception as err:  # pylint: disable=broad-except
            print(f'constant generation failed for {path.stem}: {err!r}')
            failed = 1
    with core.coq_lock():
        rc, out = core.make(['all'], jobs=16)
    print(out[-3000:])
    return rc or failed


def main() -> int:
    import logging
    import threading

    logging.disable(logging.CRITICAL)
    threading.excepthook = lambda args: None
    ap = argparse.ArgumentParser()
    ap.add_argument('pid', nargs='?')
    ap.add_argument('--tier', default=os.environ.get('VERIF_TIER', 'quick'), choices=['quick', 'thorough'])
    ap.add_argument('--replay')
    ap.add_argument('--setup', action='store_true')
    ap.add_argument('--seed', type=int, default=int(os.environ.get('VERIF_SEED', '20260930')))
    args = ap.parse_args()
    if args.setup:
        return setup()
    prop = load(args.pid)
    return core.run_check(prop, args.tier, args.seed, args.replay)


if __name__ == '__main__':
    sys.exit(main())
