"""Printing of DSL descriptions (harness/dslgen.py) as Coq `Dsl.feature` / `Dsl.source` terms."""
from harness import dslgen
from harness.core import cb, cl, cn, co, cp, cz

_NAMES = {}
TABLE_ID = {'A': 0, 'B': 1, 'C': 2}
KIND = {'int': 'KInt', 'float': 'KFloat', 'str': 'KStr', 'bool': 'KBool', 'date': 'KDate', 'timestamp': 'KTs'}
BINOP = {'+': 'OAdd', '-': 'OSub', '*': 'OMul', '==': 'OEq', '!=': 'ONe', '<': 'OLt', '<=': 'OLe', '>': 'OGt', '>=': 'OGe',
         'and': 'OAnd', 'or': 'OOr'}
AGG = {'count': 'ACount', 'sum': 'ASum', 'min': 'AMin', 'max': 'AMax', 'avg': 'AAvg'}
JK = {'inner': 'JInner', 'left': 'JLeft', 'right': 'JRight', 'full': 'JFull', 'cross': 'JCross'}
SETK = {'union': 0, 'intersection': 1, 'difference': 2}


def nid(name) -> int:
    if name not in _NAMES:
        _NAMES[name] = len(_NAMES)
    return _NAMES[name]


def refs_in(src, env=None):
    """Reference name -> referenced source description."""
    env = {} if env is None else env
    t = src[0]
    if t == 'ref':
        env[src[2]] = src[1]
        refs_in(src[1], env)
    elif t in ('join', 'set'):
        refs_in(src[2], env)
        refs_in(src[3], env)
    elif t == 'query':
        refs_in(src[1], env)
    return env


def clit(v):
    if isinstance(v, bool):
        return f'(LBool {cb(v)})'
    if isinstance(v, int):
        return f'(LInt {cz(v)})'
    if isinstance(v, float):
        return f'(LFloat {cn(nid(repr(v)))})'
    return f'(LStr {cn(nid(v))})'


def cfeature(f, refs):
    t = f[0]
    if t == 'col':
        kind = dict(dslgen.CATALOG.get(f[1], {})).get(f[2], 'int')
        return f'(FCol {cn(TABLE_ID.get(f[1], 9))} {cn(nid(f[2]))} {KIND[kind]})'
    if t == 'elem':
        kind = dict(dslgen.named_columns(refs[f[1]])).get(f[2], 'int') if f[1] in refs else 'int'
        return f'(FElem {cn(nid(f[1]))} {cn(nid(f[2]))} {KIND[kind]})'
    if t == 'lit':
        return f'(FLit {clit(f[1])})'
    if t == 'alias':
        return f'(FAlias {cfeature(f[1], refs)} {cn(nid(f[2]))})'
    if t == 'not':
        return f'(FNot {cfeature(f[1], refs)})'
    if t == 'agg':
        return f'(FAgg {AGG[f[1]]} {cfeature(f[2], refs)})'
    return f'(FBin {BINOP[f[1]]} {cfeature(f[2], refs)} {cfeature(f[3], refs)})'


def csource(s, refs=None):
    refs = refs_in(s) if refs is None else refs
    t = s[0]
    if t == 'table':
        cols = cl([cp(cn(nid(c)), KIND[k]) for c, k in dslgen.CATALOG[s[1]]], 'nat * kind')
        return f'(STable {cn(TABLE_ID[s[1]])} {cols})'
    if t == 'ref':
        return f'(SRef {csource(s[1], refs)} {cn(nid(s[2]))})'
    if t == 'join':
        cond = co(s[4], lambda c: cfeature(c, refs), 'feature')
        return f'(SJoin {JK[s[1]]} {csource(s[2], refs)} {csource(s[3], refs)} {cond})'
    if t == 'set':
        return f'(SSet {cn(SETK[s[1]])} {csource(s[2], refs)} {csource(s[3], refs)})'
    q = s[2]
    fl = lambda l: cl([cfeature(f, refs) for f in l], 'feature')
    ordering = cl([cp(cfeature(f, refs), cb(d == 'ascending')) for f, d in q.get('ord', [])], 'feature * bool')
    rows = co(q.get('rows'), lambda r: cp(cn(r[0]), cn(r[1])), 'nat * nat')
    return (f"(SQuery {csource(s[1], refs)} {fl(q.get('sel', []))} {co(q.get('pre'), lambda c: cfeature(c, refs), 'feature')} "
            f"{fl(q.get('grp', []))} {co(q.get('post'), lambda c: cfeature(c, refs), 'feature')} {ordering} {rows})")
