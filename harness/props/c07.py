"""C07 - a query statement is constructible exactly when it obeys the DSL grammar (DESIGN.md section 5, C07)."""
import copy

from harness import core, dslcoq, dslgen
from harness.core import cb, cl, cn, co, cp

A, B, C = ['table', 'A'], ['table', 'B'], ['table', 'C']


# ---- independent well-formedness oracle written from the documented rules ------------------------------------
def kind(f, refs):
    t = f[0]
    if t == 'col':
        return dict(dslgen.CATALOG[f[1]])[f[2]]
    if t == 'elem':
        return dict(dslgen.named_columns(refs[f[1]])).get(f[2])
    if t == 'lit':
        return dslgen.kind_of(f)
    if t == 'alias':
        return kind(f[1], refs)
    if t == 'not':
        return 'bool' if kind(f[1], refs) == 'bool' else None
    if t == 'win':
        return 'int' if all(kind(p, refs) is not None for p in f[2]) else None
    if t == 'agg':
        k = kind(f[2], refs)
        if k is None:
            return None
        if f[1] == 'count':
            return 'int'
        if k not in ('int', 'float'):
            return None
        return k
    ka, kb = kind(f[2], refs), kind(f[3], refs)
    if ka is None or kb is None:
        return None
    num = lambda k: k in ('int', 'float')
    if f[1] in dslgen.ARITH:
        return ('float' if 'float' in (ka, kb) else 'int') if num(ka) and num(kb) else None
    if f[1] in dslgen.CMP:
        return 'bool' if (num(ka) and num(kb)) or ka == kb else None
    return 'bool' if ka == kb == 'bool' else None


def leaves(f):
    t = f[0]
    if t in ('col', 'elem'):
        return [f]
    if t in ('lit', 'win'):      # a window is opaque to the membership rule (Element.dissect does not enter its partition)
        return []
    if t in ('alias', 'not'):
        return leaves(f[1])
    if t == 'agg':
        return leaves(f[2])
    return leaves(f[2]) + leaves(f[3])


def aggregates(f):
    t = f[0]
    if t == 'agg':
        return True
    if t in ('alias', 'not'):
        return aggregates(f[1])
    if t == 'bin':
        return aggregates(f[2]) or aggregates(f[3])
    return False


def windows(f):
    t = f[0]
    if t == 'win':
        return True
    if t in ('alias', 'not'):
        return windows(f[1])
    if t == 'agg':
        return windows(f[2])
    if t == 'bin':
        return windows(f[2]) or windows(f[3])
    return False


def has_window(s):
    """Does the statement carry a window feature anywhere (such statements have no model counterpart)?"""
    t = s[0]
    if t == 'table':
        return False
    if t == 'ref':
        return has_window(s[1])
    if t == 'join':
        return has_window(s[2]) or has_window(s[3]) or (s[4] is not None and windows(s[4]))
    if t == 'set':
        return has_window(s[2]) or has_window(s[3])
    q = s[2]
    feats = list(q.get('sel') or []) + list(q.get('grp') or []) + [f for f, _ in q.get('ord') or []]
    feats += [x for x in (q.get('pre'), q.get('post')) if x is not None]
    return has_window(s[1]) or any(windows(f) for f in feats)


def strip(f):
    return strip(f[1]) if f[0] == 'alias' else f


def out_features(s):
    t = s[0]
    if t == 'table':
        return [['col', s[1], c] for c, _ in dslgen.CATALOG[s[1]]]
    if t == 'ref':
        return [['elem', s[2], n] for n, _ in dslgen.named_columns(s[1])]
    if t in ('join', 'set'):
        return out_features(s[2]) + out_features(s[3])
    return s[2].get('sel') or out_features(s[1])


def py_schema(s, refs):
    return [[dslgen.feature_name(f), kind(f, refs)] for f in out_features(s)]


def _dict_schema(s, refs):
    # a schema is a class namespace: one field per name
    out = {}
    for i, (n, k) in enumerate(py_schema(s, refs)):
        out[n or f'_{i}'] = k
    return list(out.items())


def unique_names(s):
    names = [dslgen.feature_name(f) for f in out_features(s)]
    named = [n for n in names if n]
    return len(set(named)) == len(named)


def py_ok(s, refs):
    t = s[0]
    if t == 'table':
        return True
    if t == 'ref':
        return py_ok(s[1], refs)
    if t == 'join':
        _, jk, l, r, cond = s
        if not (py_ok(l, refs) and py_ok(r, refs)):
            return False
        if jk == 'cross':
            return cond is None
        if cond is None:
            return False
        avail = [x for f in out_features(l) + out_features(r) for x in leaves(f)]
        return kind(cond, refs) == 'bool' and not aggregates(cond) and not windows(cond) and all(e in avail for e in leaves(cond))
    if t == 'set':
        return py_ok(s[2], refs) and py_ok(s[3], refs) and _dict_schema(s[2], refs) == _dict_schema(s[3], refs)
    src, q = s[1], s[2]
    if not py_ok(src, refs):
        return False
    avail = [x for f in out_features(src) for x in leaves(f)]
    member = lambda f: all(e in avail for e in leaves(f))
    sel, grp = q.get('sel', []), q.get('grp', [])
    if not all(kind(f, refs) is not None and member(f) for f in sel):
        return False
    pre, post = q.get('pre'), q.get('post')
    if pre is not None and not (kind(pre, refs) == 'bool' and member(pre) and not aggregates(pre) and not windows(pre)):
        return False
    if not all(kind(g, refs) is not None and not aggregates(g) and not windows(g) and member(g) for g in grp):
        return False
    if grp:
        keys = [strip(g) for g in grp]
        if not all(strip(f) in keys or aggregates(f) for f in (sel or out_features(src))):
            return False
    if post is not None and not (kind(post, refs) == 'bool' and member(post) and not windows(post)):
        return False
    return all(kind(f, refs) is not None and member(f) for f, _ in q.get('ord', []))


class C07(core.Prop):
    ID = 'C07'
    IMPORTS = 'From FV Require Import Model.Dsl Model.C07.'
    CASE_TYPE = 'C07.case'
    CHECK_FUN = 'C07.check_case'
    EXTRA_TARGETS = ['Model/C07.vo', 'Lib/Corr.vo']
    RULE = (
        'conforming statements (tables, every join kind, references, nested queries, set operations; projections with '
        'aliases and arithmetic, filters, grouping with aggregates, having, ordering, limits) and, for each grammar rule, '
        'single-rule mutants at a random position (aggregate in where / grouping / join condition, element of a foreign '
        'table, non-boolean filter or join condition, incompatible operand kinds, cross join with a condition or another '
        'join without one, selected feature outside the grouping without aggregate (with >= 2 ungrouped features), set '
        'operands with different schemas); verdict compared with the model and with an independent oracle; for accepted '
        'statements the schema names and kinds. Non-trivial = a mutant, or a conforming statement with grouping or a join.'
    )
    ASSUMPTIONS = [
        'window features (RowNumber over a partition, in every clause) are generated and judged by the oracle only - they are outside the Coq grammar; the Date/Timestamp/Decimal and compound kinds are outside the generated grammar and the model',
    ]

    def _source(self, rng):
        eq = lambda l, r, op='==': ['bin', op, l, r]
        return rng.choice([
            A, B, A, C,
            ['join', rng.choice(['inner', 'left', 'right', 'full']), A, B, eq(['col', 'A', 'x'], ['col', 'B', 'x'], rng.choice(dslgen.CMP))],
            ['join', 'cross', A, C, None],
            ['join', 'inner', A, ['ref', B, 'bb'], eq(['col', 'A', 'id'], ['elem', 'bb', 'id'])],
            ['join', 'inner', ['join', 'inner', A, B, eq(['col', 'A', 'x'], ['col', 'B', 'x'])], C, eq(['col', 'B', 'id'], ['col', 'C', 'id'])],
        ])

    def _conforming(self, rng):
        src = self._source(rng)
        cols = [(f, k) for f, k in dslgen.columns_of(src)]
        ints = [f for f, k in cols if k == 'int']
        q = {'sel': [], 'pre': None, 'grp': [], 'post': None, 'ord': [], 'rows': None}
        if rng.random() < 0.35:
            q['grp'] = rng.sample(ints, rng.randint(1, 2))
            q['sel'] = list(q['grp']) + [['alias', ['agg', rng.choice(dslgen.AGGS), rng.choice(ints)], f'g{i}'] for i in range(rng.randint(1, 2))]
            if rng.random() < 0.5:
                q['sel'].append(['bin', '+', ['agg', 'sum', rng.choice(ints)], ['lit', 1]])
            if rng.random() < 0.5:
                q['post'] = ['bin', '>', ['agg', 'count', rng.choice(ints)], ['lit', 1]]
        else:
            for i in range(rng.randint(0, 3)):
                f = dslgen.gen_expr(rng, cols, rng.choice(['int', 'int', 'str', 'bool']), 1)
                q['sel'].append(['alias', f, f'c{i}'] if f[0] not in ('col', 'elem') and rng.random() < 0.7 else f)
        if rng.random() < 0.6:
            q['pre'] = dslgen.gen_pred(rng, cols, 2)
        if rng.random() < 0.3 and not q['grp']:
            q['ord'] = [[rng.choice(ints), rng.choice(['ascending', 'descending'])]]
        if rng.random() < 0.2:
            q['rows'] = [rng.randint(1, 5), rng.randint(0, 2)]
        stmt = ['query', src, q]
        r = rng.random()
        if r < 0.1:
            other = ['query', src, {**q, 'pre': None}]
            return ['set', rng.choice(['union', 'intersection', 'difference']), stmt, other]
        if r < 0.2 and all(dslgen.feature_name(f) for f in (q['sel'] or [['col', 'A', 'x']])):
            return ['query', ['ref', stmt, 'sub'], {'sel': [], 'pre': None, 'grp': [], 'post': None, 'ord': [], 'rows': None}]
        return stmt

    def _mutant(self, rng, stmt):
        """Violate exactly one rule."""
        stmt = copy.deepcopy(stmt)
        target = stmt
        while target[0] != 'query' or target[1][0] == 'ref':
            if target[0] == 'set':
                target = target[2]
            elif target[0] == 'query':
                target = target[1][1]
            else:
                return None
        src, q = target[1], target[2]
        ints = [f for f, k in dslgen.columns_of(src) if k == 'int']
        strs = [f for f, k in dslgen.columns_of(src) if k == 'str']
        foreign = ['col', 'C', 'w'] if not any(f == ['col', 'C', 'w'] for f, _ in dslgen.columns_of(src)) else ['col', 'B', 'z']
        if any(f == foreign for f, _ in dslgen.columns_of(src)):
            foreign = None
        kinds = ['agg_where', 'nonbool_where', 'kind_mismatch', 'logical_nonbool', 'arith_str']
        temporal = [f for f, k in dslgen.columns_of(src) if k in ('date', 'timestamp')]
        if len(temporal) >= 2:
            kinds += ['temporal_mismatch', 'temporal_mismatch']
        if foreign:
            kinds += ['foreign_sel', 'foreign_where', 'foreign_ord']
        if src[0] == 'join' and src[1] != 'cross':
            kinds += ['agg_join', 'join_no_cond', 'nonbool_join']
        if src[0] == 'join' and src[1] == 'cross':
            kinds += ['cross_with_cond']
        kinds += ['agg_group', 'ungrouped', 'ungrouped2']
        if stmt[0] == 'set':
            kinds += ['set_schema', 'set_prefix', 'set_prefix']
        k = rng.choice(kinds)
        x = rng.choice(ints)
        if k == 'agg_where':
            q['pre'] = ['bin', '>', ['agg', 'count', x], ['lit', 1]]
        elif k == 'nonbool_where':
            q['pre'] = ['bin', '+', x, ['lit', 1]]
        elif k == 'kind_mismatch' and strs:
            q['pre'] = ['bin', rng.choice(dslgen.CMP), x, rng.choice(strs)]
        elif k == 'temporal_mismatch':
            a, b = rng.sample(temporal, 2)
            q['pre'] = ['bin', rng.choice(dslgen.CMP), a, b]
        elif k == 'logical_nonbool':
            q['pre'] = ['bin', 'and', ['bin', '>', x, ['lit', 0]], x]
        elif k == 'arith_str' and strs:
            q['sel'] = [['bin', '+', rng.choice(strs), ['lit', 1]]]
            q['grp'], q['post'] = [], None
        elif k == 'foreign_sel':
            q['sel'] = (q['sel'] or []) + [foreign]
            if q['grp']:
                q['grp'] = q['grp'] + [foreign]
        elif k == 'foreign_where':
            q['pre'] = ['bin', '>', foreign, ['lit', 0]]
        elif k == 'foreign_ord':
            q['ord'] = [[foreign, 'ascending']]
        elif k == 'agg_join':
            src[4] = ['bin', '>', ['agg', 'max', x], ['lit', 0]]
        elif k == 'join_no_cond':
            src[4] = None
        elif k == 'nonbool_join':
            src[4] = ['bin', '*', x, ['lit', 2]]
        elif k == 'cross_with_cond':
            src[4] = ['bin', '==', ['col', 'A', 'id'], ['col', 'C', 'id']]
        elif k == 'agg_group':
            q['grp'] = [['agg', 'sum', x]]
            q['sel'] = [['agg', 'sum', x]]
            q['post'] = None
        elif k == 'ungrouped':
            q['grp'] = [x]
            q['sel'] = [x, self._offender(rng, ints, x)]
            q['post'] = None
        elif k == 'ungrouped2':
            q['grp'] = [x]
            q['sel'] = [x, ['alias', ['agg', 'count', x], 'n'], self._offender(rng, ints, x)]
            rng.shuffle(q['sel'])
            q['post'] = None
        elif k == 'set_prefix':
            # one operand's schema is a strict prefix of the other's
            side = rng.choice([2, 3])
            branch = stmt[side]
            if branch[0] != 'query' or not branch[2].get('sel') or branch[2].get('grp'):
                return None
            extra = [f for f, _ in dslgen.columns_of(branch[1]) if f not in branch[2]['sel']]
            if not extra:
                return None
            branch[2]['sel'] = branch[2]['sel'] + [rng.choice(extra)]
        elif k == 'set_schema':
            stmt[3] = ['query', A, {'sel': [['col', 'A', 'id'], ['col', 'A', 's']], 'pre': None, 'grp': [], 'post': None, 'ord': [], 'rows': None}]
        else:
            return None
        return stmt

    @staticmethod
    def _offender(rng, ints, x):
        """A selected feature that is neither the grouping key nor contains an aggregate: a column, an arithmetic,
        comparison (every operator, '==' included - its Python truth value is special) or logical expression over
        columns and literals, bare or aliased."""
        others = [f for f in ints if f != x] or [['bin', '+', x, ['lit', 1]]]
        a, b = rng.choice(others), rng.choice(ints + [['lit', rng.randint(-1, 3)]])
        r = rng.random()
        if r < 0.3:
            f = a
        elif r < 0.45:
            f = ['bin', rng.choice(['+', '-', '*']), a, b]
        elif r < 0.85:
            f = ['bin', rng.choice(dslgen.CMP), a, b]
        else:
            f = ['bin', rng.choice(['and', 'or']), ['bin', rng.choice(dslgen.CMP), a, b], ['bin', '==', x, ['lit', 1]]]
        if rng.random() < 0.3:
            f = ['alias', f, 'off']
        return f

    def corpus(self):
        x, y = ['col', 'A', 'x'], ['col', 'A', 'y']
        q = lambda sel, grp: ['query', A, {'sel': sel, 'pre': None, 'grp': grp, 'post': None, 'ord': [], 'rows': None}]
        out = []
        for op in ('==', '<', '>', '>=', '!='):
            c = ['bin', op, x, ['lit', 1]]
            # grouping by a comparison that is also selected (bare and aliased) is conforming
            out.append({'statement': q([c, ['alias', ['agg', 'count', y], 'n']], [c]), 'mutant': False})
            out.append({'statement': q([['alias', c, 'flag'], ['alias', ['agg', 'sum', y], 'n']], [c]), 'mutant': False})
        # a selected comparison outside the grouping is an offender whatever its operator (== has a Python truth value)
        for op in ('==', '!=', '<'):
            for off in (['bin', op, y, ['lit', 1]], ['alias', ['bin', op, y, x], 'off'], ['bin', op, y, ['col', 'A', 'id']]):
                out.append({'statement': q([x, off], [x]), 'mutant': True})
                out.append({'statement': q([off, x, ['alias', ['agg', 'count', y], 'n']], [x]), 'mutant': True})
        # set operations need equal schemas: a strict prefix on either side is not enough
        two = ['query', A, {'sel': [['col', 'A', 'id'], ['col', 'A', 'x']], 'pre': None, 'grp': [], 'post': None, 'ord': [], 'rows': None}]
        one = ['query', A, {'sel': [['col', 'A', 'id']], 'pre': None, 'grp': [], 'post': None, 'ord': [], 'rows': None}]
        for kind in ('union', 'intersection', 'difference'):
            out.append({'statement': ['set', kind, one, two], 'mutant': True})
            out.append({'statement': ['set', kind, two, one], 'mutant': True})
        out += self._windowed(None)
        return out

    @staticmethod
    def _windowed(rng):
        """Statements with a window feature (RowNumber over a partition) in every clause: cross-row features are excluded
        from where / grouping / join conditions, windows from having, and in a grouped query a window does not make a
        selected feature outside the grouping legitimate (only an aggregate does). Oracle only: no model counterpart."""
        ident, x, y = ['col', 'A', 'id'], ['col', 'A', 'x'], ['col', 'A', 'y']
        pick = (lambda l: l[0]) if rng is None else rng.choice
        parts = [[x], [x, y], []] if rng is None else [rng.sample([ident, x, y], rng.randint(0, 2))]
        q = lambda src, **kw: ['query', src, {'sel': [], 'pre': None, 'grp': [], 'post': None, 'ord': [], 'rows': None, **kw}]
        out = []
        for part in parts:
            w = ['win', 'rownumber', part]
            wraps = [w, ['alias', w, 'rn'], ['bin', '+', w, ['lit', 1]], ['alias', ['bin', '*', ['lit', 2], w], 'rn2'],
                     ['bin', pick(['>', '==', '<=']), w, ['lit', 1]], ['bin', '-', w, y]]
            if rng is not None:
                wraps = rng.sample(wraps, 3)
            count = ['alias', ['agg', 'count', y], 'n']
            for f in wraps:
                out.append({'statement': q(A, sel=[ident, f]), 'mutant': False})                         # plain projection: fine
                out.append({'statement': q(A, sel=[x, f], grp=[x]), 'mutant': True})                     # outside the grouping, no aggregate
                out.append({'statement': q(A, sel=[x, count, f], grp=[x]), 'mutant': True})              # ... even beside a real aggregate
                out.append({'statement': q(A, sel=[f, x], grp=[x, y]), 'mutant': True})
            mixed = ['bin', '+', w, ['agg', pick(['count', 'sum', 'max']), y]]
            out.append({'statement': q(A, sel=[x, mixed], grp=[x]), 'mutant': False})                     # carries an aggregate: fine
            out.append({'statement': q(A, sel=[x, ['alias', mixed, 'm']], grp=[x]), 'mutant': False})
            cond = ['bin', pick(['>', '<', '==']), w, ['lit', 1]]
            out.append({'statement': q(A, sel=[ident], pre=cond), 'mutant': True})                        # where
            out.append({'statement': q(A, sel=[ident], pre=['bin', 'and', ['bin', '>', x, ['lit', 0]], cond]), 'mutant': True})
            out.append({'statement': q(A, sel=[count], grp=[w]), 'mutant': True})                         # grouping
            out.append({'statement': q(A, sel=[x, count], grp=[x, ['bin', '+', w, ['lit', 1]]]), 'mutant': True})
            out.append({'statement': q(A, sel=[x, count], grp=[x], post=cond), 'mutant': True})           # having
            out.append({'statement': q(A, sel=[x, count], grp=[x], post=['bin', '>', ['agg', 'count', y], ['lit', 1]]), 'mutant': False})
            out.append({'statement': q(A, sel=[ident], ord=[[w, pick(['ascending', 'descending'])]]), 'mutant': False})   # ordering: fine
            out.append({'statement': q(['join', 'inner', A, B, ['bin', '==', w, ['col', 'B', 'id']]], sel=[ident]), 'mutant': True})
        return out

    def cases(self, rng, tier):
        n = 300 if tier == 'quick' else 3000
        out = []
        for _ in range(max(10, n // 30)):
            # grouped by a (possibly aliased) comparison that is also selected
            cols = [f for f, k in dslgen.columns_of(A) if k == 'int']
            c = ['bin', rng.choice(dslgen.CMP), rng.choice(cols), rng.choice(cols + [['lit', rng.randint(-1, 3)]])]
            sel = [c if rng.random() < 0.5 else ['alias', c, 'flag'], ['alias', ['agg', rng.choice(['count', 'sum', 'max']), rng.choice(cols)], 'n']]
            out.append({'statement': ['query', A, {'sel': sel, 'pre': None, 'grp': [c], 'post': None, 'ord': [], 'rows': None}], 'mutant': False})
        while len(out) < n:
            stmt = self._conforming(rng)
            if rng.random() < 0.5:
                stmt = self._mutant(rng, stmt)
                if stmt is None:
                    continue
                out.append({'statement': stmt, 'mutant': True})
            else:
                out.append({'statement': stmt, 'mutant': False})
        for _ in range(2 if tier == 'quick' else 20):
            out += self._windowed(rng)
        return out

    def run_impl(self, cases):
        from harness.impl import c07 as impl

        return [impl.observe(c) for c in cases]

    def coq_case(self, case, obs):
        if has_window(case['statement']):
            return None     # window features are outside the Coq grammar: judged by the oracle only
        if 'error' in obs or 'schema_error' in obs:
            return '(C07.CStatement (STable 0 nil) false nil)'
        schema = []
        for name, k in obs.get('schema', []):
            real = name if not (name.startswith('_') and name[1:].isdigit()) else None
            schema.append(cp(co(None if real is None else dslcoq.nid(real), cn, 'nat'), co(k if k in dslcoq.KIND else None, lambda x: dslcoq.KIND[x], 'kind')))
        return f"(C07.CStatement {dslcoq.csource(case['statement'])} {cb(obs['accepted'])} {cl(schema, 'option nat * option kind')})"

    def oracle(self, case, obs):
        if 'error' in obs:
            return f"construction raised {obs['error']} instead of the grammar error"
        refs = dslcoq.refs_in(case['statement'])
        want = py_ok(case['statement'], refs)
        if obs['accepted'] != want:
            return f"statement {'accepted' if obs['accepted'] else 'rejected: ' + obs.get('why', '')} but the grammar says {'valid' if want else 'invalid'}"
        if obs['accepted']:
            if 'schema_error' in obs:
                return f"schema of a conforming statement cannot be obtained: {obs['schema_error']}"
            expect = py_schema(case['statement'], refs)
            got = [[None if (n.startswith('_') and n[1:].isdigit()) else n, k] for n, k in obs['schema']]
            if case['statement'][0] != 'set' and unique_names(case['statement']) and got != expect:
                return f"schema {got} does not list the output features' names and kinds in order {expect}"
        return None

    def nontrivial(self, case, obs):
        s = case['statement']
        return case['mutant'] or (s[0] == 'query' and (bool(s[2].get('grp')) or s[1][0] == 'join'))

    def distribution(self, cases, observations):
        dist = {'mutants': 0, 'conforming': 0, 'accepted': 0, 'rejected': 0, 'sets': 0, 'grouped': 0}
        for c, o in zip(cases, observations):
            dist['mutants'] += c['mutant']
            dist['conforming'] += not c['mutant']
            dist['accepted'] += bool(o.get('accepted'))
            dist['rejected'] += o.get('accepted') is False
            dist['sets'] += c['statement'][0] == 'set'
            dist['grouped'] += c['statement'][0] == 'query' and bool(c['statement'][2].get('grp'))
        return dist


PROP = C07()
