"""C17 - model selection strategies (DESIGN.md section 5, C17)."""
from fractions import Fraction

from harness import core
from harness.core import cl, cn, co, cp, cz


def frac(w):
    """Exact rational the user wrote (decimal string semantics for floats, ints as is)."""
    return None if w is None else Fraction(str(w))


def cq(f: Fraction) -> str:
    return f'({f.numerator} # {f.denominator})%Q'


def cfloat(w) -> str:
    return f"({'true' if isinstance(w, int) else 'false'}, ({float(w).hex()})%float)"


def q_model(weights, n):
    """Independent exact-rational rendering of the selector; returns picks and whether a (near-)tie occurred."""
    given = [frac(w) for w in weights if w is not None]
    missing = sum(1 for w in weights if w is None)
    explicit = sum(given, Fraction(0))
    implicit = None
    if missing:
        implicit = (1 - explicit) / missing if explicit < 1 else explicit / len(given)
    full = [frac(w) if w is not None else implicit for w in weights]
    combined = sum(full, Fraction(0))
    targets = [t / combined for t in full]
    order = sorted(range(len(weights)), key=lambda i: -targets[i])
    counts = [0] * len(weights)
    picks, boundary = [], False
    for total in range(1, n + 1):
        chosen = None
        for i in order:
            ratio = Fraction(counts[i], total)
            if abs(ratio - targets[i]) < Fraction(1, 10**9):
                boundary = True
            if chosen is None and ratio < targets[i]:
                chosen = i
        if chosen is None:
            break
        counts[chosen] += 1
        picks.append(chosen)
    # equal (or nearly equal) targets make the float sort order fragile as well
    for i in range(len(targets)):
        for j in range(i):
            if targets[i] != targets[j] and abs(targets[i] - targets[j]) < Fraction(1, 10**9):
                boundary = True
    return picks, targets, boundary


class C17(core.Prop):
    ID = 'C17'
    IMPORTS = 'From FV Require Import Model.C17 Model.C17F Model.C17Cases.\nRequire Import QArith.\nFrom Coq Require Import PrimFloat.'
    CASE_TYPE = 'C17Cases.case'
    CHECK_FUN = 'C17Cases.check_case'
    EXTRA_TARGETS = ['Model/C17Cases.vo', 'Lib/Corr.vo']
    RULE = (
        'ab: variant sets of 2-6 (integer weights, decimal fractions, omitted targets, sums below/equal/above 1) x a '
        'request count; the full pick sequence of the real ABTest.select is compared bit-exactly with the binary64 twin '
        '(always) and with the rational model (unless an exact or 1e-9-near tie occurs on the way, counted as '
        'rounding_boundary_cases); latest: registry listings (releases with and without generations, arbitrary order) '
        'with and without a configured release, first pick and picks after the registry grew and the refresh interval '
        'elapsed; explicit: constant instance. Non-trivial = ab with >= 3 variants or an omitted target, latest with '
        '>= 2 steps.'
    )
    ASSUMPTIONS = [
        'builtin sum() is modelled as CPython 3.12 implements it (Neumaier compensated summation from the first float item on); all values finite', 'the theorems are about the exact-rational selector; the implementation evaluates in binary64: the float twin must agree bit-exactly on every generated history and the rational model on every history without a (near-)tie - the gap is measured, not proved',
        'Latest: the refresher thread timing (sleep interval, scheduling) is runtime; the model covers what _pick computes from a listing',
    ]

    def corpus(self):
        return [
            {'t': 'ab', 'weights': [7, 10, 11, 12, 7, 9], 'n': 47},
            {'t': 'ab', 'weights': [0.9, None], 'n': 50},
            {'t': 'ab', 'weights': [1, None], 'n': 20},
            {'t': 'ab', 'weights': [0.5, 0.5, None], 'n': 30},
            {'t': 'ab', 'weights': [0.25, None, 0.75], 'n': 30},
            {'t': 'latest', 'release': None, 'steps': [[[1, [1]], [2, []]], [[1, [1]], [2, [1]]]]},
            {'t': 'latest', 'release': None, 'steps': [[[1, [2]], [2, []]], [[1, [2]], [2, [1, 2]]]]},
            # a configured release that has no generation at the first request and then gains them one by one (the
            # refresher must survive the empty listing and keep following)
            {'t': 'latest', 'release': 1, 'steps': [[[1, []]], [[1, [1]]], [[1, [1, 2]]], [[1, [1, 2, 3]]]]},
            {'t': 'latest', 'release': 2, 'steps': [[[1, [1]], [2, []]], [[1, [1, 2]], [2, [1]]], [[1, [1, 2]], [2, [1, 2]]]]},
            # one selector serving a second registry that gains a generation after the refresher has started
            {'t': 'latest', 'release': None, 'steps': [[[1, [1]]]], 'second': [[[1, [1, 2]]], [[1, [1, 2, 3]]], [[1, [1, 2, 3]], [2, [1]]]]},
        ]

    def cases(self, rng, tier):
        n = 120 if tier == 'quick' else 1200
        out = []
        for _ in range(n):
            k = rng.randint(2, 6)
            style = rng.choice(['int', 'int', 'frac', 'frac1', 'over'])
            if style == 'int':
                weights = [rng.randint(1, 12) for _ in range(k)]
            elif style == 'frac':  # decimals summing below one
                parts = sorted(rng.sample(range(1, 20), k))
                weights = [round((b - a) * 0.05, 2) for a, b in zip([0] + parts, parts)]
            elif style == 'frac1':  # decimals summing to exactly one
                parts = sorted(rng.sample(range(1, 20), k - 1)) + [20]
                weights = [round((b - a) * 0.05, 2) for a, b in zip([0] + parts, parts)]
            else:
                weights = [round(rng.randint(1, 30) * 0.1, 1) for _ in range(k)]
            for i in range(k):
                if rng.random() < 0.2:
                    weights[i] = None
            if all(w is None for w in weights) and rng.random() < 0.5:
                weights[0] = 1
            out.append({'t': 'ab', 'weights': weights, 'n': rng.choice([30, 100, 400 if tier == 'quick' else 2000])})
        for _ in range(n // 3):
            rels = rng.sample(range(1, 8), rng.randint(1, 4))
            reg = [[r, sorted(rng.sample(range(1, 9), rng.randint(0, 3)))] for r in rels]
            out.append({'t': 'latest', 'release': rng.choice([None, None, rng.choice(rels)]), 'steps': [reg]})
        for _ in range(8 if tier == 'quick' else 60):
            rels = rng.sample(range(1, 6), rng.randint(1, 3))
            reg = [[r, sorted(rng.sample(range(1, 5), rng.randint(0, 2)))] for r in rels]
            steps = [reg]
            for _ in range(rng.randint(1, 2)):
                cur = [[r, list(g)] for r, g in steps[-1]]
                if rng.random() < 0.4:
                    new = max(r for r, _ in cur) + 1
                    cur.append([new, [rng.randint(1, 3)] if rng.random() < 0.7 else []])
                else:
                    tgt = rng.choice(cur)
                    tgt[1].append(max(tgt[1] + [0]) + 1)
                steps.append(cur)
            case = {'t': 'latest', 'release': rng.choice([None, None, None, rels[0]]), 'steps': steps}
            if rng.random() < 0.3:
                # the configured release starts without a generation and gains them step by step while the others move
                r0 = rels[0]
                steps = [[[r, ([] if r == r0 else list(g))] for r, g in reg]]
                for k in range(1, rng.randint(3, 4)):
                    cur = [[r, (list(range(1, k + 1)) if r == r0 else list(g))] for r, g in steps[-1]]
                    if rng.random() < 0.3:
                        cur.append([max(r for r, _ in cur) + 1, [1]])
                    steps.append(cur)
                case = {'t': 'latest', 'release': r0, 'steps': steps}
            if rng.random() < 0.4:
                # the same selector also serves a second registry with its own history
                case = {**case, 'steps': steps[:1], 'second': steps}
            out.append(case)
        for _ in range(5):
            out.append({'t': 'explicit', 'reg': [[1, [1, 2, 3]], [2, [1]]], 'release': rng.choice([1, 2]), 'generation': 1})
        return out

    def run_impl(self, cases):
        from harness.impl import c17 as impl

        return [impl.observe(c) for c in cases]

    def coq_case(self, case, obs):
        # a list of terms is not supported by the core: AB cases are emitted as F cases; the Q twin is appended
        # through extra_terms (see run_check hook below)
        raise NotImplementedError

    def coq_cases(self, case, obs):
        """Several Coq cases per harness case."""
        t = case['t']
        if 'error' in obs:
            return ['(C17Cases.QCase (C17.CPick nil None (Some (0, 0)%Z)))']
        if t == 'ab':
            picks = cl([cn(p) for p in obs['picks']], 'nat')
            fts = cl([co(w, cfloat, 'C17F.fitem') for w in case['weights']], 'option C17F.fitem')
            terms = [f"(C17Cases.FCase (C17F.CABF {fts} {cn(case['n'])} {picks}))"]
            _, _, boundary = q_model(case['weights'], case['n'])
            if not boundary:
                qts = cl([co(frac(w), cq, 'Q') for w in case['weights']], 'option Q')
                terms.append(f"(C17Cases.QCase (C17.CAB {qts} {cn(case['n'])} {picks}))")
            return terms
        if t == 'latest':
            terms = []
            for step, got in list(zip(case['steps'], obs['picks'])) + list(zip(case.get('second', []), obs.get('picks2', []))):
                reg = cl([cp(cz(r), cl([cz(g) for g in gens], 'Z')) for r, gens in step], 'Z * list Z')
                o = co(got, lambda p: cp(cz(int(p[0])), cz(p[1])), 'Z * Z')
                terms.append(f"(C17Cases.QCase (C17.CPick {reg} {co(case['release'], cz, 'Z')} {o}))")
            return terms
        return []

    # ---- oracle from the property text -----------------------------------------------------------------
    def oracle(self, case, obs):
        if 'error' in obs:
            return f"raised {obs['error']}"
        t = case['t']
        if t == 'ab':
            if 'failed' in obs or len(obs['picks']) != case['n']:
                return f"selection failed after {len(obs['picks'])} requests"
            _, targets, _ = q_model(case['weights'], 0)
            counts = [0] * len(targets)
            worst = None
            for total, p in enumerate(obs['picks'], start=1):
                counts[p] += 1
                for i, tg in enumerate(targets):
                    dev = counts[i] - tg * total
                    # 'within one request': inclusive (a binary64 rounding tie can make it exactly one)
                    if abs(dev) > 1 + 1e-9 and (worst is None or abs(dev) > abs(worst[2])):
                        worst = (total, i, dev)
            if worst:
                return f'variant {worst[1]} deviates from its share by {float(worst[2]):.3f} requests after {worst[0]} requests (k={len(targets)})'
            return None
        if t == 'latest':
            for step, got in list(zip(case['steps'], obs['picks'])) + list(zip(case.get('second', []), obs.get('picks2', []))):
                if case['release'] is not None:
                    gens = [g for r, gs in step if r == case['release'] for g in gs]
                    want = [str(case['release']), max(gens)] if gens else None
                else:
                    having = [(r, gs) for r, gs in step if gs]
                    want = None
                    if having:
                        r, gs = max(having)
                        want = [str(r), max(gs)]
                if got != want:
                    return f'latest resolved to {got}, expected {want} for registry {step}'
            return None
        if t == 'explicit':
            want = [str(case['release']), case['generation']]
            if any(p != want for p in obs['picks']):
                return f"explicit strategy returned {obs['picks']}"
        return None

    def signature(self, case, obs, problem):
        if case['t'] == 'ab' and 'deviates' in problem and 'failed' not in obs:
            _, targets, _ = q_model(case['weights'], 0)
            k = len(targets)
            counts = [0] * k
            for total, p in enumerate(obs['picks'], start=1):
                counts[p] += 1
                for i, tg in enumerate(targets):
                    dev = counts[i] - tg * total
                    # the proved envelope: strictly less than one ahead, at most k-1 behind
                    if dev > 1 + 1e-9 or dev < -(k - 1) - 1e-9:
                        return None
            if k >= 3:
                return 'C17/abtest-share-behind-within-k-1'
        return None

    def nontrivial(self, case, obs):
        if case['t'] == 'ab':
            return len(case['weights']) >= 3 or any(w is None for w in case['weights'])
        return case['t'] == 'latest' and (len(case['steps']) >= 2 or len(case.get('second', [])) >= 2)

    def shrink(self, case):
        out = []
        if case['t'] == 'ab':
            if case['n'] > 5:
                out.append({**case, 'n': case['n'] // 2})
                out.append({**case, 'n': case['n'] - 1})
            if len(case['weights']) > 2:
                for i in range(len(case['weights'])):
                    out.append({**case, 'weights': case['weights'][:i] + case['weights'][i + 1 :]})
        if case['t'] == 'latest' and len(case['steps']) > 2:
            out.append({**case, 'steps': case['steps'][1:]})
        return out

    def distribution(self, cases, observations):
        dist = {'by_type': {}, 'variants': {}, 'omitted_targets': 0, 'rounding_boundary_cases': 0, 'requests': 0, 'latest_steps': 0}
        for c in cases:
            dist['by_type'][c['t']] = dist['by_type'].get(c['t'], 0) + 1
            if c['t'] == 'ab':
                k = str(len(c['weights']))
                dist['variants'][k] = dist['variants'].get(k, 0) + 1
                dist['omitted_targets'] += any(w is None for w in c['weights'])
                dist['rounding_boundary_cases'] += q_model(c['weights'], c['n'])[2]
                dist['requests'] += c['n']
            if c['t'] == 'latest':
                dist['latest_steps'] += len(c['steps'])
        return dist


PROP = C17()
