"""C06 - feed reads return exactly what the statement denotes over its own storage (DESIGN.md section 5, C06)."""
import copy
import os
import pathlib
import shutil
import tempfile

from harness import core, dslcoq, dslgen
from harness.core import cb, cl, cn, co, cp, cz
from harness.props.c14 import USABLE, cols_of, fix, sources_in, statement_features, walk

A, B, C = ['table', 'A'], ['table', 'B'], ['table', 'C']
ANON = ('q', None)


# ---- independent reference evaluator (written from SQL semantics, not from the Coq model) -------------------------
def _cmp(op, a, b):
    if a is None or b is None:
        return None
    return {'==': a == b, '!=': a != b, '<': a < b, '<=': a <= b, '>': a > b, '>=': a >= b}[op]


def _and(a, b):
    if a is False or b is False:
        return False
    return True if (a is True and b is True) else None


def _or(a, b):
    if a is True or b is True:
        return True
    return False if (a is False and b is False) else None


def ev(f, env, group=None):
    t = f[0]
    if t == 'col':
        return env.get(('t', f[1]), {}).get(f[2])
    if t == 'elem':
        return env.get(('r', f[1]), {}).get(f[2])
    if t == 'lit':
        return f[1]
    if t == 'alias':
        return ev(f[1], env, group)
    if t == 'not':
        v = ev(f[1], env, group)
        return None if v is None else (not v)
    if t == 'agg':
        vals = [v for v in (ev(f[2], e) for e in group) if v is not None]
        if f[1] == 'count':
            return len(vals)
        if not vals:
            return None
        return {'sum': sum, 'min': min, 'max': max}[f[1]](int(v) for v in vals)
    a, b = ev(f[2], env, group), ev(f[3], env, group)
    if f[1] in dslgen.ARITH:
        if a is None or b is None:
            return None
        return {'+': a + b, '-': a - b, '*': a * b}[f[1]]
    if f[1] in dslgen.CMP:
        return _cmp(f[1], a, b)
    return _and(a, b) if f[1] == 'and' else _or(a, b)


def has_agg(f):
    return any(g[0] == 'agg' for g in walk(f))


def out_names(feats):
    return [f[2] if f[0] in ('col', 'elem', 'alias') else f'#{i}' for i, f in enumerate(feats)]


def features_of(s):
    t = s[0]
    if t == 'table':
        return [['col', s[1], c] for c, _ in dslgen.CATALOG[s[1]]]
    if t == 'join':
        return features_of(s[2]) + features_of(s[3])
    if t == 'ref':
        return [['elem', s[2], n] for n in out_names(features_of(s[1]))]
    if t == 'set':
        return features_of(s[2])
    return s[2].get('sel') or features_of(s[1])


def canon_row(vals):
    return tuple(None if v is None else (int(v) if isinstance(v, bool) else v) for v in vals)


def ev_source(s, data):
    """List of environments: {('t', table) | ('r', ref) | ANON: {column: value}}."""
    t = s[0]
    if t == 'table':
        return [{('t', s[1]): dict(r)} for r in data[s[1]]]
    if t == 'ref':
        out = []
        for e in ev_source(s[1], data):
            out.append({('r', s[2]): next(iter(e.values()))} if len(e) == 1 else e)
        return out
    if t == 'join':
        _, kind, ls, rs, cond = s
        left, right = ev_source(ls, data), ev_source(rs, data)
        if kind == 'cross':
            return [{**a, **b} for a in left for b in right]
        ok = lambda a, b: cond is None or ev(cond, {**a, **b}) is True
        out = [{**a, **b} for a in left for b in right if ok(a, b)]
        if kind in ('left', 'full'):
            out += [a for a in left if not any(ok(a, b) for b in right)]
        if kind in ('right', 'full'):
            out += [b for b in right if not any(ok(a, b) for a in left)]
        return out
    if t == 'set':
        key = lambda e: canon_row(next(iter(e.values())).values())
        left, right = ev_source(s[2], data), ev_source(s[3], data)
        rk = {key(e) for e in right}
        if s[1] == 'union':
            pool = left + right
        elif s[1] == 'intersection':
            pool = [e for e in left if key(e) in rk]
        else:
            pool = [e for e in left if key(e) not in rk]
        seen, out = set(), []
        for e in pool:
            if key(e) not in seen:
                seen.add(key(e))
                out.append(e)
        return out
    q = s[2]
    feats = q.get('sel') or features_of(s[1])
    names = out_names(feats)
    rows = [e for e in ev_source(s[1], data) if q.get('pre') is None or ev(q['pre'], e) is True]
    ordkey = lambda get: (lambda x: None)
    if q.get('grp') or q.get('post') is not None or any(has_agg(f) for f in feats):
        if q.get('grp'):
            groups = {}
            for e in rows:
                groups.setdefault(canon_row(ev(g, e) for g in q['grp']), []).append(e)
            groups = list(groups.values())
        else:
            groups = [rows]
        units = [(g[0] if g else {}, g) for g in groups]
        if q.get('post') is not None:
            units = [(e, g) for e, g in units if ev(q['post'], e, g) is True]
    else:
        units = [(e, None) for e in rows]
    for f, direction in reversed(q.get('ord', [])):
        units.sort(key=lambda u: (lambda v: 0 if v is None else int(v))(ev(f, u[0], u[1])), reverse=direction == 'descending')
    if q.get('rows'):
        count, offset = q['rows']
        units = units[offset:offset + count]
    return [{ANON: dict(zip(names, (ev(f, e, g) for f in feats)))} if len(set(names)) == len(names)
            else {ANON: {f'{n}@{i}': ev(f, e, g) for i, (n, f) in enumerate(zip(names, feats))}} for e, g in units]


def reference(case):
    return [canon_row(next(iter(e.values())).values()) for e in ev_source(case['statement'], case['data'])]


def cvalue(v):
    if v is None:
        return 'VNull'
    if isinstance(v, bool):
        return f'(VInt {cz(int(v))})'
    if isinstance(v, int):
        return f'(VInt {cz(v)})'
    return f'(VStr {cn(dslcoq.nid(v))})'


def cdb(data):
    tables = []
    for t, rows in data.items():
        crows = cl([cl([cp(cn(dslcoq.nid(c)), 'VNull' if r.get(c) is None else (f'(VBool {cb(r[c])})' if isinstance(r[c], bool) else cvalue(r[c])))
                        for c, _ in dslgen.CATALOG[t]], 'nat * value') for r in rows], 'list (nat * value)')
        tables.append(cp(cn(dslcoq.TABLE_ID[t]), crows))
    return cl(tables, 'nat * list (list (nat * value))')


def ctfeat(t):
    """Coq C06Parser.tfeat of a term recorded from the real Visitor."""
    k = t[0]
    if k == 'column':
        handle = f'(HTable {cn(dslcoq.TABLE_ID[t[1][1]])})' if t[1][0] == 'T' else f'(HAlias {cn(dslcoq.nid(t[1][1]))})'
        return f'(TColumn {handle} {cn(dslcoq.nid(t[2]))})'
    if k == 'lit':
        return f'(TLit {dslcoq.clit(t[1])})'
    if k == 'alias':
        return f'(TAliasF {ctfeat(t[1])} {cn(dslcoq.nid(t[2]))})'
    if k == 'bin':
        return f'(TBin {dslcoq.BINOP[t[1]]} {ctfeat(t[2])} {ctfeat(t[3])})'
    if k == 'not':
        return f'(TNot {ctfeat(t[1])})'
    return f'(TAgg {dslcoq.AGG[t[1]]} {ctfeat(t[2])})'


def ctsrc(t):
    k = t[0]
    if k == 'table':
        return f'(TTable {cn(dslcoq.TABLE_ID[t[1]])})'
    if k == 'ref':
        return f'(TRef {ctsrc(t[1])} {cn(dslcoq.nid(t[2]))})'
    if k == 'join':
        return f"(TJoin {ctsrc(t[1])} {ctsrc(t[2])} {co(t[3], ctfeat, 'tfeat')} {dslcoq.JK[t[4]]})"
    if k == 'set':
        return f'(TSet {ctsrc(t[1])} {ctsrc(t[2])} {cn(dslcoq.SETK[t[3]])})'
    _, src, feats, where, grp, having, order, rows = t
    fl = lambda l: cl([ctfeat(f) for f in l], 'tfeat')
    od = cl([cp(ctfeat(f), cb(d == 'ascending')) for f, d in order], 'tfeat * bool')
    return (f"(TQuery {ctsrc(src)} {fl(feats)} {co(where, ctfeat, 'tfeat')} {fl(grp)} {co(having, ctfeat, 'tfeat')} {od} "
            f"{co(rows, lambda r: cp(cn(r[0]), cn(r[1])), 'nat * nat')})")


class C06(core.Prop):
    ID = 'C06'
    IMPORTS = 'From FV Require Import Model.Dsl Model.DslSem Model.C06 Model.C06Impl Model.C06Parser Model.C06Cases.'
    CASE_TYPE = 'C06Cases.case'
    CHECK_FUN = 'C06Cases.check_case'
    EXTRA_TARGETS = ['Model/C06Cases.vo', 'Lib/Corr.vo']
    RULE = (
        'parser level: statements over a 3-table catalog - projections with aliases and arithmetic / comparison features, '
        'where-clauses of random and/or/not predicates (three-valued, NULLs in the data), every join kind (inner, left, right, '
        'full, cross) incl. self-joins through references, sub-queries behind references on either join side, set operations '
        '(incl. the same reference on both branches), grouping with count/sum/min/max and having, ordering, limit/offset - x '
        'random table contents of 0-6 rows; the real alchemy parser output is executed on sqlite and on duckdb and both row '
        'sets are compared with the Coq denotation and with an independent Python evaluator (exact sequence when the '
        'ordering is total, bag otherwise). Non-trivial = a statement with a join, a reference, a set operation or grouping.'
    )
    ASSUMPTIONS = [
        'SQLAlchemy 2.0 compiles the parser output; sqlite 3.40 and duckdb 1.5 execute it (both must agree with the denotation)',
        'strings are compared for (in)equality only, integers are small (no overflow), no floats / division / avg, NULL ordering keys are not generated (engine-specific)',
        'set operations nested in set operations are executed on duckdb only (SQLite has no parenthesised compound operands, which is what SQLAlchemy renders for them)',
    ]

    # ---- constants derived from the source on every run -----------------------------------------------------------
    def generated(self):
        """What the alchemy parser emits for each join kind, binary operator, set kind and ordering direction."""
        from forml.io import dsl
        from forml.io.dsl import function
        from forml.provider.feed.reader import alchemy
        from sqlalchemy import sql

        class Operand:
            def __init__(self, name):
                self.name = name

            def join(self, right, onclause=None, isouter=False, full=False):
                return {'left': self.name, 'right': right.name, 'on': onclause, 'isouter': bool(isouter), 'full': bool(full)}

        kinds = {'JInner': dsl.Join.Kind.INNER, 'JLeft': dsl.Join.Kind.LEFT, 'JRight': dsl.Join.Kind.RIGHT, 'JFull': dsl.Join.Kind.FULL,
                 'JCross': dsl.Join.Kind.CROSS}
        arms = []
        marker = sql.column('cond')
        for name, kind in kinds.items():
            got = alchemy.Parser.generate_join(None, Operand('L'), Operand('R'), None if name == 'JCross' else marker, kind)
            if {got['left'], got['right']} != {'L', 'R'}:
                raise RuntimeError(f'generate_join({name}) does not join its two operands: {got}')
            if name == 'JCross':
                if str(got['on'].compile(compile_kwargs={'literal_binds': True})) not in ('true', '1'):
                    raise RuntimeError(f'generate_join(CROSS) is not ON true: {got}')
            elif got['on'] is not marker:
                raise RuntimeError(f'generate_join({name}) does not pass the condition through: {got}')
            arms.append(f"  | {name} => {{| jf_full := {cb(got['full'])}; jf_outer := {cb(got['isouter'])}; jf_swap := {cb(got['left'] == 'R')} |}}")
        ops = {'OAdd': (function.Addition, 'p + q'), 'OSub': (function.Subtraction, 'p - q'), 'OMul': (function.Multiplication, 'p * q'),
               'OEq': (function.Equal, 'p = q'), 'ONe': (function.NotEqual, 'p != q'), 'OLt': (function.LessThan, 'p < q'),
               'OLe': (function.LessEqual, 'p <= q'), 'OGt': (function.GreaterThan, 'p > q'), 'OGe': (function.GreaterEqual, 'p >= q'),
               'OAnd': (function.And, 'p AND q'), 'OOr': (function.Or, 'p OR q')}
        texts = {t: n for n, (_, t) in ops.items()}
        emitted = []
        for name, (cls, _) in ops.items():
            text = str(alchemy.Parser.EXPRESSION[cls](sql.column('p'), sql.column('q')))
            if text not in texts:
                raise RuntimeError(f'EXPRESSION[{cls.__name__}] emits {text!r}')
            emitted.append(f'  | {name} => {texts[text]}')
        neg = str(alchemy.Parser.EXPRESSION[function.Not](sql.column('p') > sql.column('q')))
        aggs = {'ACount': (function.Count, 'count(p)'), 'ASum': (function.Sum, 'sum(p)'), 'AMin': (function.Min, 'min(p)'), 'AMax': (function.Max, 'max(p)'),
                'AAvg': (function.Avg, 'avg(p)')}
        atexts = {t: n for n, (_, t) in aggs.items()}
        aggarms = []
        for name, (cls, _) in aggs.items():
            text = str(alchemy.Parser.EXPRESSION[cls](sql.column('p')))
            if text not in atexts:
                raise RuntimeError(f'EXPRESSION[{cls.__name__}] emits {text!r}')
            aggarms.append(f'  | {name} => {atexts[text]}')
        sets = {0: dsl.Set.Kind.UNION, 1: dsl.Set.Kind.INTERSECTION, 2: dsl.Set.Kind.DIFFERENCE}
        words = {'UNION': 0, 'INTERSECT': 1, 'EXCEPT': 2}
        setarms = []
        for k, kind in sets.items():
            text = str(alchemy.Parser.SET[kind](sql.select(sql.column('p')), sql.select(sql.column('q'))))
            word = [w for w in words if f' {w} ' in text.replace('\n', ' ')]
            if len(word) != 1 or 'ALL' in text:
                raise RuntimeError(f'SET[{kind}] emits {text!r}')
            setarms.append(f'  | {k} => {words[word[0]]}')
        asc = str(alchemy.Parser.ORDER[dsl.Ordering.Direction.ASCENDING](sql.column('p')))
        desc = str(alchemy.Parser.ORDER[dsl.Ordering.Direction.DESCENDING](sql.column('p')))
        direction = lambda t: 'true' if t == 'p ASC' else 'false' if t == 'p DESC' else None
        if direction(asc) is None or direction(desc) is None:
            raise RuntimeError(f'ORDER emits {asc!r} / {desc!r}')
        text = (
            '(* GENERATED from forml/provider/feed/reader/alchemy.py (generate_join, EXPRESSION, SET, ORDER) of the current /repo tree - do not edit *)\n'
            'Require Import Bool.\nFrom FV Require Import Model.Dsl Model.C06.\n'
            'Definition flags (k : jkind) : join_flags :=\n  match k with\n' + '\n'.join(arms) + '\n  end.\n'
            'Definition emitted_op (o : binop) : binop :=\n  match o with\n' + '\n'.join(emitted) + '\n  end.\n'
            f"Definition emitted_not_is_sql_not : bool := {cb(neg in ('NOT p > q', 'p <= q'))}.\n"
            'Definition emitted_agg (a : aggfn) : aggfn :=\n  match a with\n' + '\n'.join(aggarms) + '\n  end.\n'
            'Definition emitted_set (k : nat) : nat :=\n  match k with\n' + '\n'.join(setarms) + '\n  | n => n\n  end.\n'
            f'Definition emitted_direction (ascending : bool) : bool := if ascending then {direction(asc)} else {direction(desc)}.\n'
        )
        return {'C06Join.v': text}

    # ---- generation -------------------------------------------------------------------------------------------
    def _data(self, rng, tables):
        data = {}
        for t in ['A', 'B', 'C']:
            rows = []
            n = rng.choice([0, 1, 2, 3, 4, 5, 6]) if t in tables else 0
            for i in range(n):
                r = {'id': i}
                for c, k in dslgen.CATALOG[t]:
                    if c == 'id':
                        continue
                    if k == 'int':
                        r[c] = None if rng.random() < 0.15 else rng.randint(-2, 4)
                    elif k == 'str':
                        r[c] = None if rng.random() < 0.15 else rng.choice(['a', 'b', 'zz'])
                    elif k == 'bool':
                        r[c] = rng.random() < 0.5
                    else:
                        r[c] = None
                rows.append(r)
            data[t] = rows
        return data

    def _subquery(self, rng, t, name):
        cols = cols_of([t])
        chosen = [cols[0]] + [c for c in cols[1:] if rng.random() < 0.6]
        sel, avail = [], []
        for k, (f, kind) in enumerate(chosen):
            if rng.random() < 0.5:
                sel.append(['alias', f, f'c{k}'])
                avail.append((['elem', name, f'c{k}'], kind))
            else:
                sel.append(f)
                avail.append((['elem', name, f[2]], kind))
        if rng.random() < 0.3:
            ints = [f for f, k in chosen if k == 'int']
            sel.append(['alias', ['bin', rng.choice(['+', '-', '*']), rng.choice(ints), rng.choice(ints + [['lit', 2]])], 'calc'])
            avail.append((['elem', name, 'calc'], 'int'))
        pre = fix(dslgen.gen_pred(rng, cols, 1)) if rng.random() < 0.6 else None
        q = {'sel': sel, 'pre': pre, 'grp': [], 'post': None, 'ord': [], 'rows': None}
        ids = [['elem', name, f[2] if f[0] != 'alias' else f[2]] for f in sel[:1]]
        return ['ref', ['query', ['table', t], q], name], avail, ids

    def _leaf(self, rng, t, k):
        """A join operand over table t: the table, a reference to it, or a referenced sub-query; (src, columns, unique ids)."""
        r = rng.random()
        if r < 0.55:
            return ['table', t], cols_of([t]), [['col', t, 'id']]
        if r < 0.75:
            name = f'r{k}'
            return ['ref', ['table', t], name], [(['elem', name, c], dict(dslgen.CATALOG[t])[c]) for c in USABLE[t]], [['elem', name, 'id']]
        return self._subquery(rng, t, f'q{k}')

    def _cond(self, rng, left, right):
        li = [f for f, k in left if k == 'int']
        ri = [f for f, k in right if k == 'int']
        r = rng.random()
        eq = ['bin', '==', rng.choice(li), rng.choice(ri)]
        if r < 0.45:
            return eq
        if r < 0.6:
            return ['bin', rng.choice(['<', '<=', '>', '>=', '!=']), rng.choice(li), rng.choice(ri)]
        if r < 0.8:
            return ['bin', 'and', eq, fix(dslgen.gen_pred(rng, rng.choice([left, right]), 1))]
        return fix(dslgen.gen_pred(rng, left + right, 2))

    def _source(self, rng):
        n = rng.choice([1, 1, 2, 2, 2, 3])
        tables = [rng.choice(['A', 'B', 'C']) for _ in range(n)]
        used = set()
        src, avail, ids = None, [], []
        kinds = []
        for k, t in enumerate(tables):
            if t in used:
                # a table may appear twice only behind a reference (self-join)
                name = f'r{k}'
                leaf, cols, lid = ['ref', ['table', t], name], [(['elem', name, c], dict(dslgen.CATALOG[t])[c]) for c in USABLE[t]], [['elem', name, 'id']]
            else:
                leaf, cols, lid = self._leaf(rng, t, k)
                if leaf[0] == 'table':
                    used.add(t)
            if src is None:
                src = leaf
            else:
                kind = rng.choice(['inner'] * 5 + ['left', 'left', 'right', 'right', 'full', 'full', 'cross'])
                kinds.append(kind)
                cond = None if kind == 'cross' else self._cond(rng, avail, cols)
                src = ['join', kind, src, leaf, cond]
            avail = avail + cols
            ids = ids + lid
        return src, avail, ids, kinds, sorted(set(tables))

    def _query(self, rng):
        src, avail, ids, kinds, tables = self._source(rng)
        q = {'sel': [], 'pre': None, 'grp': [], 'post': None, 'ord': [], 'rows': None}
        if rng.random() < 0.7:
            q['pre'] = fix(dslgen.gen_pred(rng, avail, rng.choice([1, 2, 2, 3])))
        ints = [f for f, k in avail if k == 'int']
        shape = rng.random()
        exact = False
        if shape < 0.22:
            key = rng.choice(avail)[0]
            q['grp'] = [key] if rng.random() < 0.85 else []
            aggs = [['alias', ['agg', rng.choice(['count', 'sum', 'min', 'max']), rng.choice(ints)], f'g{i}'] for i in range(rng.randint(1, 2))]
            q['sel'] = ([key] if q['grp'] else []) + aggs
            if rng.random() < 0.4:
                q['post'] = ['bin', rng.choice(['>=', '>', '==']), ['agg', 'count', rng.choice(ints)], ['lit', rng.choice([0, 1, 2])]]
        else:
            if shape < 0.9:
                q['sel'] = [f for f, _ in avail if rng.random() < 0.4] or [avail[0][0]]
                if rng.random() < 0.35:
                    q['sel'].append(['alias', ['bin', rng.choice(['+', '-', '*']), rng.choice(ints), rng.choice(ints + [['lit', 3]])], 'calc'])
                if rng.random() < 0.15:
                    q['sel'].append(['alias', fix(dslgen.gen_pred(rng, avail, 1)), 'flag'])
            total = all(k in ('inner', 'cross') for k in kinds)
            r = rng.random()
            if total and r < 0.45:
                q['ord'] = [[f, rng.choice(['ascending', 'descending'])] for f in ids]
                exact = True
                if rng.random() < 0.5:
                    q['rows'] = [rng.choice([0, 1, 1, 2, 3, 5]), rng.choice([0, 0, 1, 2])]
            elif r < 0.6:
                q['ord'] = [[ids[0], rng.choice(['ascending', 'descending'])]] if total else []
        return ['query', src, q], tables, exact

    def _set(self, rng):
        if rng.random() < 0.2:
            # a set operation nested in a set operation (either side)
            t = rng.choice(['A', 'B'])
            col = lambda: ['col', t, rng.choice(['id', 'x'])]
            leaf = lambda: ['query', ['table', t], {'sel': [col()], 'pre': fix(dslgen.gen_pred(rng, cols_of([t]), 1)) if rng.random() < 0.7 else None,
                                                    'grp': [], 'post': None, 'ord': [], 'rows': None}]
            kinds = ['union', 'intersection', 'difference', 'difference']
            inner = ['set', rng.choice(kinds), leaf(), leaf()]
            return (['set', rng.choice(kinds), leaf(), inner] if rng.random() < 0.6 else ['set', rng.choice(kinds), inner, leaf()]), [t], False
        if rng.random() < 0.25:
            # the two branches reference two different tables under the same name
            mk = lambda t, col: ['query', ['ref', ['table', t], 't'], {'sel': [['elem', 't', 'id'], ['elem', 't', col]],
                                                                     'pre': fix(dslgen.gen_pred(rng, [(['elem', 't', 'id'], 'int'), (['elem', 't', col], 'int')], 1)) if rng.random() < 0.6 else None,
                                                                     'grp': [], 'post': None, 'ord': [], 'rows': None}]
            return ['set', rng.choice(['union', 'intersection', 'difference']), mk('A', rng.choice(['x', 'y'])), mk('B', rng.choice(['x', 'z']))], ['A', 'B'], False
        t = rng.choice(['A', 'B'])
        name = 'r0'
        style = rng.random()
        if style < 0.4:
            src, cols = ['table', t], [f for f, k in cols_of([t]) if k == 'int']
            avail = cols_of([t])
        elif style < 0.7:
            src = ['ref', ['table', t], name]
            avail = [(['elem', name, c], dict(dslgen.CATALOG[t])[c]) for c in USABLE[t]]
            cols = [f for f, k in avail if k == 'int']
        else:
            src, avail, _ = self._subquery(rng, t, 'q0')
            cols = [f for f, k in avail if k == 'int']
        width = rng.randint(1, min(2, len(cols)))
        mk = lambda: ['query', copy.deepcopy(src), {'sel': rng.sample(cols, width), 'pre': fix(dslgen.gen_pred(rng, avail, 1)) if rng.random() < 0.7 else None,
                                                     'grp': [], 'post': None, 'ord': [], 'rows': None}]
        return ['set', rng.choice(['union', 'intersection', 'difference']), mk(), mk()], [t], False

    def corpus(self):
        d = {'A': [{'id': 0, 'x': 1, 'y': 0, 's': 'a', 'b': True}, {'id': 1, 'x': 2, 'y': None, 's': None, 'b': False}, {'id': 2, 'x': None, 'y': 3, 's': 'b', 'b': True}],
             'B': [{'id': 0, 'x': 1, 'z': 4, 't': 'a'}, {'id': 1, 'x': 3, 'z': None, 't': 'zz'}], 'C': []}
        q = lambda src, **kw: ['query', src, {'sel': [], 'pre': None, 'grp': [], 'post': None, 'ord': [], 'rows': None, **kw}]
        ax, bx = ['col', 'A', 'x'], ['col', 'B', 'x']
        ra = ['ref', A, 'a2']
        sub = ['ref', q(A, sel=[['col', 'A', 'id'], ['alias', ['col', 'A', 'x'], 'c1']], pre=['bin', '>', ['col', 'A', 'id'], ['lit', 0]]), 'q0']
        stmts = [
            q(['join', k, A, B, ['bin', '==', ax, bx]], sel=[['col', 'A', 'id'], ['col', 'B', 'z']]) for k in ('inner', 'left', 'right', 'full')
        ] + [
            q(['join', 'cross', A, B, None], sel=[['col', 'A', 'id'], ['col', 'B', 'id']]),
            q(['join', 'cross', A, C, None], sel=[['col', 'A', 'id'], ['col', 'C', 'id']]),
            q(['join', 'inner', A, ra, ['bin', '<', ['col', 'A', 'id'], ['elem', 'a2', 'id']]], sel=[['col', 'A', 'x'], ['elem', 'a2', 'x']]),
            q(['join', 'left', sub, B, ['bin', '==', ['elem', 'q0', 'c1'], bx]], sel=[['elem', 'q0', 'id'], ['col', 'B', 'z']]),
            q(['join', 'right', B, sub, ['bin', '==', ['elem', 'q0', 'c1'], bx]], sel=[['elem', 'q0', 'id'], ['col', 'B', 'z']]),
            q(A, sel=[['col', 'A', 's'], ['alias', ['agg', 'count', ['col', 'A', 'y']], 'n']], grp=[['col', 'A', 's']]),
            q(A, sel=[['alias', ['agg', 'sum', ['col', 'A', 'x']], 'n']], pre=['bin', '>', ['col', 'A', 'id'], ['lit', 5]]),
            q(A, sel=[['col', 'A', 'id']], pre=['not', ['bin', '>', ['col', 'A', 'y'], ['lit', 1]]]),
            q(A, sel=[['col', 'A', 'id']], pre=['bin', 'or', ['bin', '==', ['col', 'A', 's'], ['lit', 'a']], ['not', ['bin', '==', ['col', 'A', 'x'], ['lit', 1]]]]),
            ['set', 'union', q(ra, sel=[['elem', 'a2', 'x']]), q(copy.deepcopy(ra), sel=[['elem', 'a2', 'x']], pre=['bin', '>', ['elem', 'a2', 'x'], ['lit', 1]])],
            ['set', 'difference', q(A, sel=[['col', 'A', 'x']]), q(A, sel=[['col', 'A', 'id']])],
            q(A, sel=[['col', 'A', 'id']], ord=[[['col', 'A', 'id'], 'ascending']], rows=[0, 0]),
            q(A, sel=[['col', 'A', 'id']], ord=[[['col', 'A', 'id'], 'ascending']], rows=[0, 1]),
            # nested set operations: a - (b - c), (a - b) - c, a union (b intersect c)
            ['set', 'difference', q(A, sel=[['col', 'A', 'id']]), ['set', 'difference', q(A, sel=[['col', 'A', 'id']], pre=['bin', '>', ['col', 'A', 'id'], ['lit', 0]]),
                                                                     q(A, sel=[['col', 'A', 'id']], pre=['bin', '>', ['col', 'A', 'id'], ['lit', 1]])]],
            ['set', 'difference', ['set', 'difference', q(A, sel=[['col', 'A', 'id']]), q(A, sel=[['col', 'A', 'id']], pre=['bin', '>', ['col', 'A', 'id'], ['lit', 1]])],
             q(A, sel=[['col', 'A', 'id']], pre=['bin', '<', ['col', 'A', 'id'], ['lit', 1]])],
            ['set', 'union', q(B, sel=[['col', 'B', 'id']]), ['set', 'intersection', q(A, sel=[['col', 'A', 'id']]), q(A, sel=[['col', 'A', 'x']])]],
            # two DIFFERENT references carrying the same name in sibling scopes (union branches / joined sub-queries)
            ['set', 'union', q(['ref', A, 't'], sel=[['elem', 't', 'x']]), q(['ref', B, 't'], sel=[['elem', 't', 'x']])],
            q(['join', 'inner',
               ['ref', q(['ref', A, 't'], sel=[['elem', 't', 'id'], ['alias', ['elem', 't', 'x'], 'ax']]), 'q1'],
               ['ref', q(['ref', B, 't'], sel=[['elem', 't', 'id'], ['alias', ['elem', 't', 'z'], 'bz']]), 'q2'],
               ['bin', '==', ['elem', 'q1', 'id'], ['elem', 'q2', 'id']]], sel=[['elem', 'q1', 'ax'], ['elem', 'q2', 'bz']]),
            q(A, sel=[['col', 'A', 'id'], ['col', 'A', 'x']], ord=[[['col', 'A', 'id'], 'descending']], rows=[2, 1]),
        ]
        exact = [s[0] == 'query' and bool(s[2].get('rows')) for s in stmts]
        return [{'statement': s, 'tables': ['A', 'B', 'C'], 'data': d, 'exact': e} for s, e in zip(stmts, exact)]

    def cases(self, rng, tier):
        n = 250 if tier == 'quick' else 2500
        out = []
        for _ in range(n):
            stmt, tables, exact = self._set(rng) if rng.random() < 0.12 else self._query(rng)
            out.append({'statement': stmt, 'tables': tables, 'data': self._data(rng, tables), 'exact': exact})
        for _ in range(8 if tier == 'quick' else 60):
            out.append(self._history(rng))
        for _ in range(4 if tier == 'quick' else 30):
            out.append(self._history_monolite(rng))
        return out

    def _history(self, rng):
        # two statements of one shape differing in a constant only, plus a random one
        t = rng.choice(['A', 'B'])
        src = ['table', t] if rng.random() < 0.6 else ['join', 'inner', A, B, ['bin', '==', ['col', 'A', 'x'], ['col', 'B', 'x']]]
        sel = [['col', t, 'id'], ['alias', ['bin', '+', ['col', t, 'x'], ['lit', 1]], 'calc']]
        k1, k2 = rng.sample([0, 1, 2, 3], 2)
        shaped = lambda k: ['query', copy.deepcopy(src), {'sel': copy.deepcopy(sel), 'pre': ['bin', '>=', ['col', t, 'id'], ['lit', k]], 'grp': [], 'post': None,
                                                          'ord': [], 'rows': None}]
        stmts = [shaped(k1), shaped(k2)]
        while len(stmts) < 3:
            stmt, tables, _ = self._query(rng)
            if stmt[0] == 'query' and not stmt[2].get('rows') and set(tables) <= {'A', 'B'}:
                stmts.append(stmt)
        conns = [0, 1] if rng.random() < 0.6 else [0]
        ops = [{'op': 'mutate', 'conn': c, 'data': self._data(rng, ['A', 'B'])} for c in conns]
        # the two statements differing in a constant only are read back to back over unchanged storage (in either order,
        # possibly with a restart in between): the second read must not be served the first one's rows
        c = rng.choice(conns)
        first, second = rng.sample([0, 1], 2)
        ops.append({'op': 'read', 'conn': c, 'stmt': first})
        if rng.random() < 0.3:
            ops.append({'op': 'restart'})
        ops.append({'op': 'read', 'conn': c, 'stmt': second})
        for _ in range(rng.randint(2, 5)):
            r = rng.random()
            if r < 0.6:
                ops.append({'op': 'read', 'conn': rng.choice(conns), 'stmt': rng.randrange(len(stmts))})
            elif r < 0.85:
                ops.append({'op': 'mutate', 'conn': rng.choice(conns), 'data': self._data(rng, ['A', 'B'])})
            else:
                ops.append({'op': 'restart'})
        ops.append({'op': 'read', 'conn': rng.choice(conns), 'stmt': 0})
        return {'history': ops, 'statements': stmts}

    def _history_monolite(self, rng):
        """Read histories through inline-backed monolite feeds (process-global lazy backend): statements over table B."""
        bx = lambda c: ['col', 'B', c]
        shaped = lambda k: ['query', B, {'sel': [bx('id'), bx('z')], 'pre': ['bin', '>=', bx('id'), ['lit', k]], 'grp': [], 'post': None, 'ord': [], 'rows': None}]
        k1, k2 = rng.sample([0, 1, 2], 2)
        stmts = [shaped(k1), shaped(k2),
                 ['query', B, {'sel': [bx('t'), ['alias', ['agg', 'sum', bx('x')], 'sx']], 'pre': None, 'grp': [bx('t')], 'post': None, 'ord': [], 'rows': None}]]

        def data():
            return {'B': [{'id': i, 'x': rng.randint(-2, 4), 'z': rng.randint(-2, 4), 't': rng.choice(['a', 'b', 'zz'])} for i in range(rng.randint(1, 5))]}

        conns = [0, 1] if rng.random() < 0.7 else [0]
        ops = [{'op': 'mutate', 'conn': c, 'data': data()} for c in conns]
        c = rng.choice(conns)
        first, second = rng.sample([0, 1], 2)
        ops += [{'op': 'read', 'conn': c, 'stmt': first}, {'op': 'read', 'conn': c, 'stmt': second}]
        for _ in range(rng.randint(2, 5)):
            r = rng.random()
            if r < 0.6:
                ops.append({'op': 'read', 'conn': rng.choice(conns), 'stmt': rng.randrange(len(stmts))})
            elif r < 0.85:
                ops.append({'op': 'mutate', 'conn': rng.choice(conns), 'data': data()})
            else:
                ops.append({'op': 'restart'})
        ops.append({'op': 'read', 'conn': rng.choice(conns), 'stmt': 0})
        return {'history': ops, 'statements': stmts, 'kind': 'monolite'}

    def _run_history(self, case):
        import json
        import subprocess

        tmp = pathlib.Path(tempfile.mkdtemp(prefix='c06hist', dir='/var/tmp'))
        try:
            (tmp / 'home').mkdir()
            dbs = [str(tmp / 'c0.db'), str(tmp / 'c1.db')]
            segments, current = [], []
            for op in case['history']:
                if op['op'] == 'restart':
                    segments.append(current)
                    current = []
                else:
                    current.append(op)
            segments.append(current)
            results, content = [], {}
            for k, seg in enumerate(segments):
                if k:
                    results.append({'restarted': True})
                if not seg:
                    continue
                (tmp / 'in.json').write_text(json.dumps({'dbs': dbs, 'statements': case['statements'], 'ops': seg, 'kind': case.get('kind'),
                                                         'content': content}))
                env = core.impl_env({'FORML_HOME': str(tmp / 'home'), 'HOME': str(tmp)})
                proc = subprocess.run(['/venv/bin/python', '-W', 'ignore', '-m', 'harness.impl.c06hist', str(tmp / 'in.json'), str(tmp / 'out.json')],
                                      cwd=str(core.ROOT), env=env, capture_output=True, text=True, timeout=600)
                # the runner writes out.json in one piece after its last operation: a non-zero status with a complete out.json is a
                # crash at interpreter teardown (native threads aborting under load: 'terminate called without an active
                # exception'), after everything the property speaks about was observed
                try:
                    reply = json.loads((tmp / 'out.json').read_text())
                except (OSError, ValueError):
                    return {'error': f'segment {k} failed: {proc.stderr[-400:]}'}
                if isinstance(reply, dict):
                    results += reply['results']
                    content = reply['content']
                else:
                    results += reply
                (tmp / 'out.json').unlink()
            return {'results': results}
        finally:
            shutil.rmtree(tmp, ignore_errors=True)

    def run_impl(self, cases):
        from concurrent.futures import ThreadPoolExecutor

        from harness.impl import c06 as impl

        out = [None] * len(cases)
        hist = [i for i, c in enumerate(cases) if 'history' in c]
        with ThreadPoolExecutor(max_workers=8) as pool:
            for i, o in zip(hist, pool.map(self._run_history, [cases[i] for i in hist])):
                out[i] = o
        for i, c in enumerate(cases):
            if 'history' not in c:
                out[i] = impl.observe(c)
        return out

    # ---- model side --------------------------------------------------------------------------------------------
    def _coq_history(self, case, obs):
        if case.get('kind') == 'monolite':
            return []      # the lazy backend's registration state is not in the cache model: judged by the oracle only
        if 'error' in obs or any('error' in r for r in obs['results']):
            return []
        ids, ops, answers = {}, [], []
        for op, res in zip(case['history'], obs['results']):
            if op['op'] == 'restart':
                continue
            if op['op'] == 'mutate':
                ops.append(f"(C06.Mutate hstmt db {cn(op['conn'])} {cdb(op['data'])})")
                answers.append('None')
            else:
                sid = ids.setdefault(res['sql'], len(ids))
                ops.append(f"(C06.Read hstmt db {cn(op['conn'])} ({cn(sid)}, {dslcoq.csource(case['statements'][op['stmt']])}))")
                answers.append('(Some ' + cl([cl([cvalue(v) for v in r], 'value') for r in res['rows']], 'list value') + ')')
        return [f"(KHist {cl(ops, 'hop')} {cl(answers, 'option (list (list value))')})"]

    def coq_cases(self, case, obs):
        if 'history' in case:
            return self._coq_history(case, obs)
        if 'skip' in obs or 'parse_error' in obs:
            return []
        out, seen = [], []
        for engine in ('sqlite', 'duckdb'):
            res = obs.get(engine, {})
            if 'rows' not in res or res['rows'] in seen:
                continue
            seen.append(res['rows'])
            rows = cl([cl([cvalue(v) for v in r], 'value') for r in res['rows']], 'list value')
            out.append(f"(KRead (C06Impl.CRead {cdb(case['data'])} {dslcoq.csource(case['statement'])} {cb(case['exact'])} {rows}))")
        if 'described' in obs:
            # the automaton model reads the statement as the DSL really built it (operand order of reflected comparisons)
            term = f"(Some {ctsrc(obs['term'])})" if 'term' in obs else 'None'
            out.append(f"(KParse (C06Parser.CParse {dslcoq.csource(obs['described'])} {term}))")
        return out

    # ---- property-text oracle -----------------------------------------------------------------------------------
    def _monolite_problems(self, case, obs):
        if 'error' in obs:
            return [(None, None, obs['error'])]
        out, current, versions = [], {}, []
        bag = lambda rows: sorted((canon_row(r) for r in rows), key=repr)
        empty = {'A': [], 'C': []}
        for k, (op, res) in enumerate(zip(case['history'], obs['results'])):
            if op['op'] == 'mutate':
                current[op['conn']] = op['data']
                versions.append(op['data'])
            if op['op'] != 'read':
                continue
            if 'error' in res:
                out.append((k, None, f"read {k} failed: {res['error']}"))
                continue
            stmt = case['statements'][op['stmt']]
            truth = bag(reference({'statement': stmt, 'data': {**empty, **current[op['conn']]}}))
            got = bag(res['rows'])
            if got != truth:
                # the listed finding: rows of some other (earlier or other feed's) content of the table, possibly for the
                # statement of the same shape that was read first
                explained = any(got == bag(reference({'statement': s2, 'data': {**empty, **v}})) for v in versions for s2 in case['statements'])
                out.append((k, 'C06/lazy-backend-and-cache-shared-across-feeds' if explained else None,
                            f"read {k} via feed {op['conn']} returned {got[:6]} where its own content denotes {truth[:6]}"))
        return out

    def _history_problems(self, case, obs):
        """(index of the read, signature or None, text) for every read that differs from the storage's content at read time."""
        if case.get('kind') == 'monolite':
            return self._monolite_problems(case, obs)
        if 'error' in obs:
            return [(None, None, obs['error'])]
        out = []
        bag = lambda rows: sorted((canon_row(r) for r in rows), key=repr)
        seen = []  # (conn, sql, truth bag, position)
        for k, (op, res) in enumerate(zip(case['history'], obs['results'])):
            if op['op'] != 'read':
                continue
            if 'error' in res:
                stmt = case['statements'][op['stmt']]
                names = out_names(stmt[2].get('sel') or features_of(stmt[1]))
                dup = ('Length mismatch' in res['error'] or 'Duplicate column names' in res['error']) and len(set(names)) < len(names)
                out.append((k, 'C06/duplicate-output-names-unreadable' if dup else None, f"read {k} failed: {res['error']}"))
                continue
            got, truth = bag(res['rows']), bag(res['truth'])
            if got != truth:
                first = next((p for p in seen if p[1] == res['sql']), None)
                sig = None
                if first is not None and first[2] == got:
                    sig = 'C06/result-cache-stale-after-mutation' if first[0] == op['conn'] else 'C06/result-cache-shared-across-connections'
                out.append((k, sig, f"read {k} via connection {op['conn']} returned {got[:6]} where the storage now holds {truth[:6]}"))
            seen.append((op['conn'], res['sql'], truth, k))
        return out

    def oracle(self, case, obs):
        if 'history' in case:
            ps = self._history_problems(case, obs)
            return '; '.join(p[2] for p in ps) if ps else None
        if 'skip' in obs:
            return None
        if 'parse_error' in obs:
            return f"parsing the well-formed statement failed: {obs['parse_error']}"
        try:
            want = reference(case)
        except Exception as err:  # pylint: disable=broad-except
            return f'reference evaluator failed ({err!r})'
        nested = case['statement'][0] == 'set' and any(x[0] == 'set' for x in (case['statement'][2], case['statement'][3]))
        for engine in ('sqlite', 'duckdb'):
            res = obs[engine]
            if engine == 'sqlite' and nested and 'error' in res and 'syntax error' in res['error']:
                continue      # SQLite's grammar has no parenthesised compound operands: nested set operations are judged on duckdb
            if 'error' in res:
                return f"{engine} rejects the parser output: {res['error'][:200]}"
            got = [canon_row(r) for r in res['rows']]
            same = got == want if case['exact'] else sorted(got, key=repr) == sorted(want, key=repr)
            if not same:
                return f'{engine} returned {got[:8]} where the statement denotes {want[:8]}'
        return None

    def signature(self, case, obs, problem):
        if 'history' in case:
            sigs = {p[1] for p in self._history_problems(case, obs)}
            return None if None in sigs or not sigs else sorted(sigs)[0]
        stmt = case['statement']
        crosses = [x for x in sources_in(stmt) if x[0] == 'join' and x[1] == 'cross']
        if crosses and 'returned' in problem:
            # known: CROSS is emitted as FULL OUTER JOIN ON true - differs exactly when one operand is empty
            fixed = copy.deepcopy(case)

            def patch(s):
                if s[0] == 'join':
                    if s[1] == 'cross':
                        s[1] = 'full'
                    patch(s[2])
                    patch(s[3])
                elif s[0] in ('ref', 'query'):
                    patch(s[1])
                elif s[0] == 'set':
                    patch(s[2])
                    patch(s[3])

            patch(fixed['statement'])
            got = {e: sorted((canon_row(r) for r in obs[e]['rows']), key=repr) for e in ('sqlite', 'duckdb')}
            want = sorted(reference(fixed), key=repr)
            if all(g == want for g in got.values()):
                return 'C06/cross-join-emitted-as-full-outer-join'
        return None

    def nontrivial(self, case, obs):
        if 'history' in case:
            return True
        return any(x[0] in ('join', 'ref', 'set') for x in sources_in(case['statement'])) or bool(case['statement'][2].get('grp') if case['statement'][0] == 'query' else True)

    def shrink(self, case):
        out = []
        if 'history' in case:
            h = case['history']
            for i in range(len(h)):
                if h[i]['op'] != 'mutate' or i >= 2:
                    out.append({**case, 'history': h[:i] + h[i + 1:]})
            return out
        stmt = case['statement']
        if stmt[0] == 'query':
            q = stmt[2]
            for key in ('pre', 'post'):
                if q.get(key) is not None:
                    out.append({**case, 'statement': ['query', stmt[1], {**q, key: None}]})
            if q.get('rows'):
                out.append({**case, 'statement': ['query', stmt[1], {**q, 'rows': None}]})
            if len(q.get('sel', [])) > 1 and not q.get('grp'):
                out.append({**case, 'statement': ['query', stmt[1], {**q, 'sel': q['sel'][:-1]}]})
        for t, rows in case['data'].items():
            if rows:
                out.append({**case, 'data': {**case['data'], t: rows[:-1]}})
                out.append({**case, 'data': {**case['data'], t: rows[1:]}})
        return out

    def model_output_expr(self, case, obs):
        if 'history' in case:
            return None
        return f"(C06Impl.result_impl {cdb(case['data'])} {dslcoq.csource(case['statement'])})"

    def distribution(self, cases, observations):
        dist = {'join_kinds': {}, 'self_joins': 0, 'subqueries': 0, 'sets': 0, 'grouped': 0, 'ordered_exact': 0, 'limited': 0,
                'skipped': 0, 'parse_errors': 0, 'empty_results': 0, 'with_not': 0}
        dist['histories'] = sum('history' in c for c in cases)
        dist['history_ops'] = {}
        for c in cases:
            for op in c.get('history', []):
                dist['history_ops'][op['op']] = dist['history_ops'].get(op['op'], 0) + 1
        for c, o in zip(cases, observations):
            if 'history' in c:
                continue
            s = c['statement']
            for x in sources_in(s):
                if x[0] == 'join':
                    dist['join_kinds'][x[1]] = dist['join_kinds'].get(x[1], 0) + 1
            refs = [x for x in sources_in(s) if x[0] == 'ref']
            dist['self_joins'] += any(x[1][0] == 'table' for x in refs) and sum(y[0] == 'table' for y in sources_in(s)) > 1
            dist['subqueries'] += any(x[1][0] == 'query' for x in refs)
            dist['sets'] += s[0] == 'set'
            dist['grouped'] += s[0] == 'query' and bool(s[2].get('grp'))
            dist['ordered_exact'] += bool(c['exact'])
            dist['limited'] += s[0] == 'query' and bool(s[2].get('rows'))
            dist['skipped'] += 'skip' in o
            dist['parse_errors'] += 'parse_error' in o
            dist['empty_results'] += o.get('sqlite', {}).get('rows') == []
            dist['with_not'] += any(g[0] == 'not' for f in statement_features(s) for g in walk(f))
        return dist


PROP = C06()
