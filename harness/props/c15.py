"""C15 - served entries reach the pipeline in the query's schema (DESIGN.md section 5, C15)."""
import itertools

from harness import core
from harness.core import cb, cl, cn, co, cp, cs, cz

NAMES = ['a', 'b', 'c', 'd', 'e', 'x1', 'x2']
KINDS = {'int': 'KInt', 'float': 'KFloat', 'str': 'KStr', 'bool': 'KBool'}


def cval(v):
    tag, x = v
    if tag == 'i':
        return f'(VInt {cz(x)})'
    if tag == 's':
        return f'(VStr {cz(x)})'
    if tag == 'b':
        return f'(VBool {cb(x)})'
    return '(VStr (-999999)%Z)'  # value outside the model: forces a mismatch


def cmat(m):
    return cl([cl([cval(v) for v in r], 'value') for r in m], 'list value')


def cfields(fs):
    return cl([cp(cs(n), KINDS[k]) for n, k in fs], 'field')


def py_cast(kind, v):
    """Oracle from the property text / kind contract: the value as the declared kind."""
    tag, x = v
    if kind == 'int':
        return ['i', int(x)] if tag in ('i', 's') else v
    if kind == 'str':
        return ['s', int(x)] if tag in ('i', 's') else None
    if kind == 'float':
        return v if tag in ('i', 'b') else None
    if kind == 'bool':
        return ['b', bool(x)] if tag in ('i', 'b') else None
    return None


class C15(core.Prop):
    ID = 'C15'
    IMPORTS = 'From FV Require Import Model.C15.'
    CASE_TYPE = 'C15.case'
    CHECK_FUN = 'C15.check_case'
    EXTRA_TARGETS = ['Model/C15.vo', 'Lib/Corr.vo']
    RULE = (
        'deliver: query schemas of 1-5 fields x entry arrangements (identical, every kind of permutation, extra columns '
        'in front/between/behind, missing columns) x entry kinds differing from the declared ones (int<->str, int->bool, '
        'int->float) x random data, Dense and Frame payloads, through Reader.__call__; matrix: h x w payloads (Dense, '
        'Frame with default, shuffled and offset row labels) under chains of 1-3 take_rows/take_columns with arbitrary '
        'index lists (repeats, empty). Non-trivial = deliver with a permuted or superset entry needing a cast, or matrix '
        'with >= 2 chained operations.'
    )
    ASSUMPTIONS = [
        'values are integers, canonical decimal strings and booleans; Float/Decimal/Date casts via pandas are outside the model',
        'entry schemas have duplicate-free names (dsl.Schema construction rejects duplicates)',
        'numpy / pandas indexing are third-party, exercised by the correspondence only',
    ]

    def corpus(self):
        return [
            {'t': 'deliver', 'flavour': 'dense', 'query': [['a', 'int'], ['b', 'str']], 'entry': [['b', 'int'], ['a', 'str']],
             'rows': [[['i', 7], ['s', 1]]]},
            {'t': 'deliver', 'flavour': 'frame', 'query': [['a', 'int']], 'entry': [['x1', 'int'], ['a', 'int']],
             'rows': [[['i', 5], ['i', 6]]]},
            {'t': 'matrix', 'flavour': 'frame', 'w': 1, 'rows': [[['i', 0]], [['i', 1]], [['i', 2]]], 'ops': [['rows', [2, 0, 1]], ['rows', [0]]]},
            {'t': 'matrix', 'flavour': 'frame', 'w': 1, 'rows': [[['i', 0]], [['i', 1]]], 'ops': [['rows', [0, 0]], ['rows', [0]]]},
        ]

    def _value(self, rng, kind):
        if kind == 'str':
            return ['s', rng.randint(-9, 99)]
        if kind == 'bool':
            return ['b', rng.random() < 0.5]
        return ['i', rng.randint(-9, 99)]

    def cases(self, rng, tier):
        n = 400 if tier == 'quick' else 4000
        out = []
        for _ in range(n):
            k = rng.randint(1, 5)
            qnames = rng.sample(NAMES[:5], k)
            query = [[nm, rng.choice(['int', 'int', 'str', 'bool', 'float'])] for nm in qnames]
            style = rng.choice(['identical', 'perm', 'super', 'super', 'missing', 'super-missing'])
            enames = list(qnames)
            if style in ('perm', 'super', 'super-missing'):
                rng.shuffle(enames)
            if style in ('super', 'super-missing'):
                for extra in rng.sample(NAMES[5:] + [x for x in NAMES[:5] if x not in qnames], rng.randint(1, 2)):
                    enames.insert(rng.randint(0, len(enames)), extra)
            if style in ('missing', 'super-missing'):
                enames.remove(rng.choice(qnames))
                if not enames:
                    enames = ['x1']
            entry = []
            for nm in enames:
                declared = dict(query).get(nm)
                if declared is None or rng.random() < 0.4:
                    # a kind the model can cast to the declared one
                    ekind = {'int': rng.choice(['str', 'int', 'bool']), 'str': rng.choice(['int', 'str']),
                             'bool': rng.choice(['int', 'bool']), 'float': rng.choice(['int', 'bool', 'float']),
                             None: rng.choice(['int', 'str', 'bool'])}[declared]
                else:
                    ekind = declared
                entry.append([nm, ekind])
            rows = [[self._value(rng, kd if kd != 'float' else 'int') for _, kd in entry] for _ in range(rng.randint(1, 3))]
            out.append({'t': 'deliver', 'flavour': rng.choice(['dense', 'frame']), 'query': query, 'entry': entry, 'rows': rows})
        # several arrangements of ONE query served by one long-lived reader (permutations / supersets of the same fields)
        for _ in range(n // 10):
            k = rng.randint(2, 4)
            qnames = rng.sample(NAMES[:5], k)
            query = [[nm, rng.choice(['int', 'int', 'str'])] for nm in qnames]
            entries = []
            extras = rng.sample(NAMES[5:], 1)
            for _ in range(rng.randint(2, 4)):
                enames = list(qnames) + (extras if rng.random() < 0.4 else [])
                rng.shuffle(enames)
                entry = [[nm, dict(query).get(nm, 'int')] for nm in enames]
                rows = [[self._value(rng, kd) for _, kd in entry] for _ in range(rng.randint(1, 2))]
                entries.append({'flavour': rng.choice(['dense', 'frame']), 'entry': entry, 'rows': rows})
            out.append({'t': 'deliver_seq', 'query': query, 'entries': entries})
        for _ in range(n // 2):
            h, w = rng.randint(1, 4), rng.randint(1, 4)
            rows = [[self._value(rng, rng.choice(['int', 'str'])) for _ in range(w)] for _ in range(h)]
            case = {'t': 'matrix', 'flavour': rng.choice(['dense', 'frame', 'frame']), 'w': w, 'rows': rows, 'ops': []}
            if case['flavour'] == 'frame' and rng.random() < 0.5:
                labels = list(range(h))
                rng.shuffle(labels)
                case['labels'] = [x + rng.choice([0, 0, 10]) for x in labels]
            ch, cw = h, w
            for _ in range(rng.randint(1, 3)):
                if rng.random() < 0.5:
                    idx = [rng.randrange(ch) for _ in range(rng.randint(0, 4))] if ch else []
                    case['ops'].append(['rows', idx])
                    ch = len(idx)
                else:
                    idx = [rng.randrange(cw) for _ in range(rng.randint(1, 4))]
                    case['ops'].append(['cols', idx])
                    cw = len(idx)
            case['wfinal'] = cw
            out.append(case)
        return out

    def run_impl(self, cases):
        from harness.impl import c15 as impl

        return [impl.observe(c) for c in cases]

    @staticmethod
    def _subcases(case, obs):
        if 'error' in obs:
            return []
        return [({'t': 'deliver', 'query': case['query'], **sub}, o) for sub, o in zip(case['entries'], obs['seq'])]

    def coq_cases(self, case, obs):
        if case['t'] == 'deliver_seq':
            return [t for t in (self.coq_case(c, o) for c, o in self._subcases(case, obs)) if t]
        term = self.coq_case(case, obs)
        return [term] if term else []

    def coq_case(self, case, obs):
        if 'error' in obs:
            return '(C15.CMatch nil nil false (Some nil))'
        if case['t'] == 'deliver':
            o = 'C15.ORefused' if obs['refused'] else f"(C15.ODelivered {cmat(obs['columns'])})"
            return f"(C15.CDeliver {cfields(case['query'])} {cfields(case['entry'])} {cmat(case['rows'])} {o})"
        ops = cl([('TakeRows ' if k == 'rows' else 'TakeCols ') + cl([cn(i) for i in idx], 'nat') for k, idx in case['ops']], 'op')
        wfinal = case.get('wfinal')
        if wfinal is None:
            wfinal = case['w']
            for k, idx in case['ops']:
                if k == 'cols':
                    wfinal = len(idx)
        return f"(C15.CMatrix {cn(case['w'])} {cmat(case['rows'])} {ops} {cn(wfinal)} {cmat(obs['rows'])} {cmat(obs['columns'])})"

    # ---- oracle from the property text -------------------------------------------------------------------
    def oracle(self, case, obs):
        if case['t'] == 'deliver_seq':
            if 'error' in obs:
                return f"raised {obs['error']}"
            for k, (c, o) in enumerate(self._subcases(case, obs)):
                problem = self.oracle(c, o)
                if problem:
                    return f'entry {k} served by the same reader: {problem}'
            return None
        if 'error' in obs:
            return f"raised {obs['error']}"
        if case['t'] == 'deliver':
            enames = [n for n, _ in case['entry']]
            missing = [n for n, _ in case['query'] if n not in enames]
            if missing:
                return None if obs['refused'] else f'entry lacking {missing} was not refused'
            if obs['refused']:
                return 'complete entry refused'
            want = []
            for name, kind in case['query']:
                j = enames.index(name)
                ekind = case['entry'][j][1]
                col = [r[j] for r in case['rows']]
                if case['entry'] != case['query'] and ekind != kind:
                    col = [py_cast(kind, v) for v in col]
                want.append(col)
            if any(v is None for c in want for v in c):
                return None  # cast outside what the oracle models
            if obs['columns'] != want:
                return f"delivered columns {obs['columns']} but the query schema {case['query']} over entry {case['entry']} requires {want}"
            return None
        m = case['rows']
        for kind, idx in case['ops']:
            m = [m[i] for i in idx] if kind == 'rows' else [[r[j] for j in idx] for r in m]
        w = case.get('wfinal', case['w'])
        cols = [[r[j] for r in m] for j in range(w)]
        if obs['rows'] != m or obs['columns'] != cols:
            return f"{case['flavour']} payload after {case['ops']} has rows {obs['rows']} / columns {obs['columns']}, matrix semantics give {m} / {cols}"
        return None

    def nontrivial(self, case, obs):
        if case['t'] == 'deliver':
            q, e = case['query'], case['entry']
            names_differ = [n for n, _ in q] != [n for n, _ in e]
            return names_differ and any(dict(e).get(n) not in (None, k) for n, k in q)
        if case['t'] == 'deliver_seq':
            return True
        return len(case['ops']) >= 2

    def shrink(self, case):
        out = []
        if case['t'] == 'deliver':
            if len(case['rows']) > 1:
                out.append({**case, 'rows': case['rows'][:1]})
            qn = [n for n, _ in case['query']]
            for j, (nm, _) in enumerate(case['entry']):
                if nm not in qn and len(case['entry']) > 1:
                    out.append({**case, 'entry': case['entry'][:j] + case['entry'][j + 1 :], 'rows': [r[:j] + r[j + 1 :] for r in case['rows']]})
            if len(case['query']) > 1:
                for j in range(len(case['query'])):
                    out.append({**case, 'query': case['query'][:j] + case['query'][j + 1 :]})
        elif case['t'] == 'deliver_seq':
            if len(case['entries']) > 2:
                out.append({**case, 'entries': case['entries'][:-1]})
                out.append({**case, 'entries': case['entries'][1:]})
        else:
            if len(case['ops']) > 1:
                out.append({k: v for k, v in {**case, 'ops': case['ops'][:-1]}.items() if k != 'wfinal'})
        return out

    def distribution(self, cases, observations):
        dist = {'by_type': {}, 'refused': 0, 'permuted': 0, 'superset': 0, 'needs_cast': 0, 'flavours': {}, 'chained_ops': 0, 'relabelled_frames': 0}
        for c, o in zip(cases, observations):
            dist['by_type'][c['t']] = dist['by_type'].get(c['t'], 0) + 1
            if 'flavour' in c:
                dist['flavours'][c['flavour']] = dist['flavours'].get(c['flavour'], 0) + 1
            if c['t'] == 'deliver':
                dist['refused'] += bool(o.get('refused'))
                qn, en = [n for n, _ in c['query']], [n for n, _ in c['entry']]
                dist['permuted'] += sorted(qn) == sorted(en) and qn != en
                dist['superset'] += set(qn) < set(en)
                dist['needs_cast'] += any(dict(c['entry']).get(n) not in (None, k) for n, k in c['query'])
            elif c['t'] == 'deliver_seq':
                dist['same_reader_entries'] = dist.get('same_reader_entries', 0) + len(c['entries'])
            else:
                dist['chained_ops'] += len(c['ops']) >= 2
                dist['relabelled_frames'] += 'labels' in c
        return dist


PROP = C15()
