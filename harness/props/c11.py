"""C11 - graph construction topology invariants (DESIGN.md section 5, C11)."""
import itertools

from harness import core
from harness.core import cb, cl, cn, cp


def cport(p):
    if p == 't':
        return 'PTrain'
    if p == 'l':
        return 'PLabel'
    return f'(PApply {cn(p[1])})'


def cdecl(d):
    if d['k'] == 'future':
        return f"(DFuture {cn(d['szin'])} {cn(d['szout'])})"
    return f"(DWorker {cn(d['gid'])} {cb(d['stateful'])} {cn(d['szin'])} {cn(d['szout'])})"


def cop(op):
    if op[0] == 'sub':
        return f'(Subscribe {cn(op[1])} {cn(op[2])} {cn(op[3])} {cn(op[4])})'
    return f'(Train {cn(op[1])} {cn(op[2])} {cn(op[3])} {cn(op[4])} {cn(op[5])})'


def csnap(snap):
    rows = []
    for outputs, ports in snap:
        outs = cl([cl([cp(cn(n), cport(p)) for n, p in subs], 'sub') for subs in outputs], 'list sub')
        rows.append(cp(outs, cl([cport(p) for p in ports], 'port')))
    return cl(rows, 'node_obs')


class C11(core.Prop):
    ID = 'C11'
    IMPORTS = 'From FV Require Import Model.C11.'
    CASE_TYPE = 'C11.case'
    CHECK_FUN = 'C11.check_case'
    EXTRA_TARGETS = ['Model/C11.vo', 'Lib/Corr.vo']
    RULE = (
        'random universes of 2-6 nodes (workers in fork groups, stateful or not, 1-2 input/output ports; placeholders) and '
        'random sequences of 1-12 subscribe / train calls, legal and illegal, plus every permutation of small call sets '
        'through placeholder chains; after EACH call the success flag, every output subscription list and every registered '
        'port set are compared with the model. Non-trivial = a sequence with a failing call followed by further calls, or '
        'one involving a placeholder.'
    )
    ASSUMPTIONS = [
        'Subscription.__del__ (garbage-collection driven removal from the port registry) is not exercised: all nodes are kept alive for the duration of a case',
        'placeholder cycles (Future registered, directly or indirectly, as its own publisher) are excluded from generation: the code recurses without bound on them',
    ]

    def corpus(self):
        w = lambda g, st=False, i=1, o=1: {'k': 'worker', 'gid': g, 'stateful': st, 'szin': i, 'szout': o}
        f = {'k': 'future', 'szin': 1, 'szout': 1}
        return [
            # two publishers for one input port through a placeholder (known finding)
            {'universe': [w(0), w(1), f, w(2)], 'ops': [['sub', 2, 0, 0, 0], ['sub', 2, 0, 1, 0], ['sub', 3, 0, 2, 0]]},
            # failed train leaves the Train subscription (known finding)
            {'universe': [w(0), w(1, True, 1, 1), w(1, True, 1, 1)], 'ops': [['train', 1, 0, 0, 1, 0]]},
            # rollback of a failed publish, then a legal retry
            {'universe': [w(0), w(1, False, 2, 1), w(2)], 'ops': [['sub', 1, 0, 0, 0], ['sub', 1, 1, 1, 0], ['sub', 1, 0, 2, 0], ['sub', 1, 1, 2, 0]]},
            # self edge through a placeholder
            {'universe': [w(0), f], 'ops': [['sub', 1, 0, 0, 0], ['sub', 0, 0, 1, 0]]},
            {'universe': [w(0), f], 'ops': [['sub', 0, 0, 1, 0], ['sub', 1, 0, 0, 0]]},
        ]

    def _universe(self, rng):
        n = rng.randint(2, 6)
        universe, groups = [], {}
        for _ in range(n):
            if rng.random() < 0.25:
                width = rng.randint(1, 2)
                universe.append({'k': 'future', 'szin': width, 'szout': width})  # placeholders map input i to output i
            elif groups and rng.random() < 0.35:
                universe.append(dict(groups[rng.choice(list(groups))]))
            else:
                gid = len(groups)
                groups[gid] = {'k': 'worker', 'gid': gid, 'stateful': rng.random() < 0.5, 'szin': rng.randint(1, 2), 'szout': rng.randint(1, 2)}
                universe.append(dict(groups[gid]))
        return universe

    @staticmethod
    def _future_cycle(universe, ops):
        """Would some placeholder end up (transitively) as its own publisher?"""
        edges = set()
        for op in ops:
            pairs = [(op[1], op[3])] if op[0] == 'sub' else [(op[1], op[2]), (op[1], op[4])]
            for s, p in pairs:
                if universe[s]['k'] == 'future' and universe[p]['k'] == 'future':
                    edges.add((s, p))
        nodes = {a for e in edges for a in e}
        for start in nodes:
            seen, todo = set(), [start]
            while todo:
                cur = todo.pop()
                for a, b in edges:
                    if a == cur:
                        if b == start:
                            return True
                        if b not in seen:
                            seen.add(b)
                            todo.append(b)
        return False

    def _op(self, rng, universe):
        n = len(universe)
        if rng.random() < 0.2:
            cands = [i for i, d in enumerate(universe) if d['k'] == 'worker']
            if cands:
                w = rng.choice(cands)
                tp, lp = rng.randrange(n), rng.randrange(n)
                return ['train', w, tp, rng.randrange(universe[tp]['szout']), lp, rng.randrange(universe[lp]['szout'])]
        s, p = rng.randrange(n), rng.randrange(n)
        return ['sub', s, rng.randrange(universe[s]['szin']), p, rng.randrange(universe[p]['szout'])]

    def cases(self, rng, tier):
        n = 400 if tier == 'quick' else 4000
        out = []
        while len(out) < n:
            universe = self._universe(rng)
            ops = [self._op(rng, universe) for _ in range(rng.randint(1, 12 if tier == 'quick' else 24))]
            if self._future_cycle(universe, ops):
                continue
            out.append({'universe': universe, 'ops': ops})
        # all orders of one set of connection calls through placeholder chains
        w = lambda g, i=1: {'k': 'worker', 'gid': g, 'stateful': False, 'szin': i, 'szout': 1}
        f = {'k': 'future', 'szin': 1, 'szout': 1}
        sets = [
            ([w(0), f, w(1)], [['sub', 1, 0, 0, 0], ['sub', 2, 0, 1, 0]]),
            ([w(0), f, f, w(1)], [['sub', 1, 0, 0, 0], ['sub', 2, 0, 1, 0], ['sub', 3, 0, 2, 0]]),
            ([w(0), f, w(1), w(2)], [['sub', 1, 0, 0, 0], ['sub', 2, 0, 1, 0], ['sub', 3, 0, 1, 0]]),
            ([w(0), w(1), f, f, w(2, 2)], [['sub', 2, 0, 0, 0], ['sub', 3, 0, 1, 0], ['sub', 4, 0, 2, 0], ['sub', 4, 1, 3, 0]]),
        ]
        for universe, calls in sets:
            for perm in itertools.permutations(calls):
                out.append({'universe': universe, 'ops': [list(c) for c in perm]})
        return out

    def run_impl(self, cases):
        from harness.impl import c11 as impl

        return [impl.observe(c) for c in cases]

    def coq_case(self, case, obs):
        if 'error' in obs:
            return '(C11.CRun nil nil [(true, nil)])'
        steps = []
        for ok, snap in obs['steps']:
            if ok.startswith('crash'):
                return '(C11.CRun nil nil [(true, nil)])'  # no crash outcome in the model: forced mismatch
            steps.append(cp(cb(ok == 'ok'), csnap(snap)))
        return (f"(C11.CRun {cl([cdecl(d) for d in case['universe']], 'decl')} {cl([cop(o) for o in case['ops']], 'op')} "
                f"{cl(steps, 'bool * list node_obs')})")

    # ---- oracle from the property text -------------------------------------------------------------------
    def _check(self, case, obs):
        """Yield (kind, description) of invariant violations, step by step."""
        universe = case['universe']
        prev = None
        for k, (ok, snap) in enumerate(obs['steps']):
            if ok.startswith('crash'):
                yield 'crash', f'call {k} {case["ops"][k]} raised {ok} instead of the topology error'
            if ok != 'ok' and prev is not None and snap != prev:
                yield 'failed-call-changed-graph', f'failing call {k} {case["ops"][k]} changed the graph'
            if ok != 'ok' and prev is None and any(o for outs, ports in snap for o in outs if o) or (ok != 'ok' and prev is None and any(ports for _, ports in snap)):
                yield 'failed-call-changed-graph', f'failing call {k} {case["ops"][k]} changed the graph'
            pubs = {}
            for n, (outputs, ports) in enumerate(snap):
                for idx, subs in enumerate(outputs):
                    for tgt, port in subs:
                        if tgt == n:
                            yield 'self-edge', f'node {n} feeds itself after call {k}'
                        if universe[n]['k'] == 'worker':
                            pubs.setdefault((tgt, str(port)), []).append((n, idx))
            for (tgt, port), lst in pubs.items():
                if len(lst) > 1:
                    yield 'two-publishers', f'input {tgt}@{port} has publishers {lst} after call {k}'
            for n, (outputs, ports) in enumerate(snap):
                if universe[n]['k'] != 'worker':
                    continue
                kinds = {'apply' if isinstance(p, list) else 'train' for p in ports}
                if len(kinds) > 1:
                    yield 'apply-and-train', f'worker {n} subscribed for both training and applying after call {k}'
                if 'train' in kinds and any(outputs[i] for i in range(len(outputs))):
                    yield 'trained-publishes', f'trained worker {n} publishes after call {k}'
                held = {str(port) for m, (outs2, _) in enumerate(snap) for subs in outs2 for tgt, port in subs if tgt == n}
                if {str(p) for p in ports} != held:
                    yield 'registry-inconsistent', f'worker {n}: registered ports {ports} but subscriptions held {sorted(held)} after call {k}'
            groups = {}
            for n, (_, ports) in enumerate(snap):
                if universe[n]['k'] == 'worker' and any(not isinstance(p, list) for p in ports):
                    groups.setdefault(universe[n]['gid'], []).append(n)
            for gid, members in groups.items():
                if len(members) > 1:
                    yield 'two-trained', f'group {gid} has trained members {members} after call {k}'
            prev = snap

    def oracle(self, case, obs):
        if 'error' in obs:
            return f"raised {obs['error']}"
        for kind, text in self._check(case, obs):
            return f'{kind}: {text}'
        return None

    def signature(self, case, obs, problem):
        kinds = {k for k, _ in self._check(case, obs)}
        uses_future = any(case['universe'][i]['k'] == 'future' for op in case['ops'] for i in ([op[1], op[3]] if op[0] == 'sub' else [op[1], op[2], op[4]]))
        has_train = any(op[0] == 'train' for op in case['ops'])
        allowed = set()
        if uses_future:
            allowed |= {'two-publishers', 'failed-call-changed-graph', 'registry-inconsistent'}
        if has_train:
            allowed |= {'failed-call-changed-graph'}
        if kinds and kinds <= allowed:
            first = problem.split(':')[0]
            if first == 'two-publishers':
                return 'C11/two-publishers-via-placeholder'
            if first == 'registry-inconsistent':
                return 'C11/refused-collapse-residue'
            if first == 'failed-call-changed-graph':
                return 'C11/failed-train-or-collapse-leaves-partial-state'
        return None

    def nontrivial(self, case, obs):
        steps = obs.get('steps', [])
        failing = [i for i, (ok, _) in enumerate(steps) if ok != 'ok']
        uses_future = any(d['k'] == 'future' for d in case['universe'])
        return (bool(failing) and failing[0] < len(steps) - 1) or (uses_future and len(case['ops']) >= 2)

    def shrink(self, case):
        out = []
        for i in range(len(case['ops'])):
            if len(case['ops']) > 1:
                out.append({**case, 'ops': case['ops'][:i] + case['ops'][i + 1 :]})
        return out

    def distribution(self, cases, observations):
        dist = {'ops': 0, 'failing_calls': 0, 'train_calls': 0, 'with_placeholder': 0, 'lengths': {}}
        for c, o in zip(cases, observations):
            dist['ops'] += len(c['ops'])
            dist['train_calls'] += sum(1 for op in c['ops'] if op[0] == 'train')
            dist['failing_calls'] += sum(1 for ok, _ in o.get('steps', []) if ok != 'ok')
            dist['with_placeholder'] += any(d['k'] == 'future' for d in c['universe'])
            k = str(len(c['ops']))
            dist['lengths'][k] = dist['lengths'].get(k, 0) + 1
        return dist


PROP = C11()
