"""C13 - actor state and hyper-parameter contract (DESIGN.md section 5, C13)."""
from harness import core
from harness.core import cb, cl, cz

FLAV = {'native': 'Native', 'codec': 'NativeCodec', 'decorated': 'Decorated', 'decorated_list': 'Decorated', 'wrapped': 'Wrapped', 'wrapped_callable': 'Wrapped'}


class C13(core.Prop):
    ID = 'C13'
    IMPORTS = 'From FV Require Import Model.C13.'
    CASE_TYPE = 'C13.case'
    CHECK_FUN = 'C13.check_case'
    EXTRA_TARGETS = ['Model/C13.vo', 'Lib/Corr.vo']
    RULE = (
        'random operation sequences (incremental training incl. histories ending in a falsy state such as 0, apply, '
        'hyper-parameter updates, cloudpickle round trips of builders and trained actors, state transfer into a rebuilt twin '
        'with the same or different hyper-parameters - through the actor\'s own set_state and through the compiled state '
        'preset; one functor object executed repeatedly incl. with an empty state; the exported state loaded into two actors of '
        'which the first trains on) on six real actor flavours (one with a mutable state updated in place): native class (default codec), native class with its own parameter-carrying '
        'codec, @wrap.Actor.train/.apply functions, wrap.Actor.type with method-name and with callable mapping. '
        'Non-trivial = a sequence with a transfer after at least one training.'
    )
    ASSUMPTIONS = [
        'user functions are fixed exact integer arithmetic; cloudpickle is trusted to round-trip states (pickle ops are exercised, modelled as identity)',
        'the native flavour\'s get_params/set_params cover the attributes holding hyper-parameters (the API contract)',
    ]

    def cases(self, rng, tier):
        n = 300 if tier == 'quick' else 3000
        out = []
        for _ in range(n):
            flavour = rng.choice(list(FLAV))
            k0, m0 = rng.randint(-2, 3), rng.randint(-2, 3)
            k, m, acc, ops = k0, m0, None, []
            for _ in range(rng.randint(1, 7)):
                r = rng.random()
                if r < 0.35:
                    x = rng.randint(-3, 3)
                    # now and then land exactly on a falsy learned state (0)
                    y = -(acc or 0) - k * x if rng.random() < 0.3 else rng.randint(-3, 3)
                    acc = (acc or 0) + k * x + y
                    ops.append(['train', x, y])
                elif r < 0.55:
                    ops.append(['apply', rng.randint(-3, 3)])
                elif r < 0.65:
                    k, m = rng.randint(-2, 3), rng.randint(-2, 3)
                    ops.append(['params', k, m])
                elif r < 0.72:
                    ops.append(['pickle'])
                elif r < 0.80:
                    ops.append([rng.choice(['functor', 'functor', 'functor_empty']), rng.randint(-3, 3)])
                elif r < 0.86:
                    ops.append(['fork_train', rng.randint(-3, 3), rng.randint(-3, 3), rng.randint(-3, 3)])
                else:
                    same = rng.random() < 0.5
                    ops.append(['transfer', k if same else rng.randint(-2, 3), m if same else rng.randint(-2, 3), rng.random() < 0.6, rng.randint(-3, 3)])
            out.append({'flavour': flavour, 'k': k0, 'm': m0, 'ops': ops, 'pickle_builder': rng.random() < 0.2})
        return out

    def run_impl(self, cases):
        from harness.impl import c13 as impl

        return [impl.observe(c) for c in cases]

    def coq_case(self, case, obs):
        if 'error' in obs:
            return '(C13.CActor Native 0%Z 0%Z [OApply 0%Z] [Silent])'
        ops = []
        for op in case['ops']:
            if op[0] == 'train':
                ops.append(f'(OTrain {cz(op[1])} {cz(op[2])})')
            elif op[0] == 'apply':
                ops.append(f'(OApply {cz(op[1])})')
            elif op[0] == 'params':
                ops.append(f'(OSetParams {cz(op[1])} {cz(op[2])})')
            elif op[0] == 'transfer':
                ops.append(f'(OTransfer {cz(op[1])} {cz(op[2])} {cb(op[3])} {cz(op[4])})')
        outs = [o for op, o in zip(case['ops'], obs['outs']) if op[0] not in ('pickle', 'functor', 'functor_empty', 'fork_train')]
        conv = lambda o: 'Silent' if o == 'silent' else ('Untrained' if o == 'untrained' else f'(Val {cz(o)})')
        return f"(C13.CActor {FLAV[case['flavour']]} {cz(case['k'])} {cz(case['m'])} {cl(ops, 'op')} {cl([conv(o) for o in outs], 'out')})"

    def oracle(self, case, obs):
        if 'error' in obs:
            return f"raised {obs['error']}"
        if not obs['stateful'] or obs['stateless_fn']:
            return f"is_stateful wrong: trainable flavour {obs['stateful']}, apply-only function {obs['stateless_fn']}"
        # contract from the property text, tracked independently
        k, m, acc = case['k'], case['m'], None
        for op, got in zip(case['ops'], obs['outs']):
            if op[0] == 'train':
                acc = (acc or 0) + k * op[1] + op[2]
            elif op[0] == 'params':
                k, m = op[1], op[2]
            elif op[0] == 'apply':
                want = 'untrained' if acc is None else acc * m + op[1]
                if got != want:
                    return f'apply({op[1]}) = {got}, expected {want}'
            elif op[0] in ('functor', 'functor_empty'):
                # one functor object (builder with the initial parameters) executed repeatedly: every execution starts from
                # a fresh actor given exactly the state passed in - an empty state means untrained
                want = 'untrained' if (acc is None or op[0] == 'functor_empty') else acc * case['m'] + op[1]
                if got != want:
                    return f'{op[0]} execution of the shared functor answered {got} for {op[1]}, expected {want}'
            elif op[0] == 'fork_train':
                if case['flavour'] != 'codec':
                    want = 'untrained' if acc is None else acc * case['m'] + op[3]
                    if got != want:
                        return (f'a second actor loaded from the same exported state answered {got} for {op[3]} after the first one '
                                f'trained on, expected {want}')
            elif op[0] == 'transfer':
                _, tk, tm, preset, x = op
                if preset or case['flavour'] != 'codec':
                    want = 'untrained' if acc is None else acc * tm + x   # the twin's builder parameters win
                    if got != want:
                        return (f"twin rebuilt with (k={tk}, m={tm}) and given the exported state answered {got} for {x}, "
                                f"expected {want} (state {acc}, builder parameters must take precedence)")
        return None

    def nontrivial(self, case, obs):
        seen = False
        for op in case['ops']:
            if op[0] == 'train':
                seen = True
            if op[0] == 'transfer' and seen:
                return True
        return False

    def shrink(self, case):
        return [{**case, 'ops': case['ops'][:i] + case['ops'][i + 1 :]} for i in range(len(case['ops'])) if len(case['ops']) > 1]

    def distribution(self, cases, observations):
        dist = {'flavours': {}, 'transfers': 0, 'preset_transfers': 0, 'pickles': 0, 'falsy_states': 0}
        for c in cases:
            dist['flavours'][c['flavour']] = dist['flavours'].get(c['flavour'], 0) + 1
            dist['transfers'] += sum(1 for o in c['ops'] if o[0] == 'transfer')
            dist['preset_transfers'] += sum(1 for o in c['ops'] if o[0] == 'transfer' and o[3])
            dist['pickles'] += sum(1 for o in c['ops'] if o[0] == 'pickle') + bool(c.get('pickle_builder'))
        return dist


PROP = C13()
