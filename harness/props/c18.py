"""C18 - persisted metadata and keys (DESIGN.md section 5, C18)."""
from harness import core
from harness.core import cl, cn, co, cp, cz

OKINDS = ['int', 'float', 'bool', 'str', 'date', 'datetime', 'tzaware']


def cver(p):
    pre = co(p['pre'], lambda x: cp(cz(x[0]), cz(x[1])), 'Z * Z')
    return f"(Version {cz(p['epoch'])} {cl([cz(x) for x in p['release']], 'Z')} {pre} {co(p['post'], cz, 'Z')} {co(p['dev'], cz, 'Z')})"


def ctag(o):
    return (f"(Tag {co(o['trts'], cz, 'Z')} {co(o['trord'], cz, 'Z')} {co(o['tuts'], cz, 'Z')} {co(o['tuscore'], cz, 'Z')} "
            f"{cl([cz(s) for s in o['states']], 'Z')})")


class C18(core.Prop):
    ID = 'C18'
    IMPORTS = 'From FV Require Import Model.C18.'
    CASE_TYPE = 'C18.case'
    CHECK_FUN = 'C18.check_case'
    EXTRA_TARGETS = ['Model/C18.vo', 'Lib/Corr.vo']
    RULE = (
        'tag: Tag.loads(Tag.dumps(t)) for tags with training/tuning timestamps present or absent, ordinals of 7 primitive '
        'kinds (int, float, bool, str, date, datetime, tz-aware), scores, 0-4 states; genkey: integers/strings incl. 0, '
        'negatives and junk; versions: pairs of PEP 440 strings (epochs, 1-4 release numbers with trailing zeros, a/b/rc, '
        'post, dev, invalid strings) compared through Release.Key; listings of generation and release keys with '
        'duplicates; manifest: write/read of legal names, versions, packages, module maps. Non-trivial = tag with an absent '
        'timestamp or a non-int ordinal, version pair differing beyond the release tuple, listing with duplicates.'
    )
    ASSUMPTIONS = [
        'the toml library is modelled as dropping None entries and preserving every other value (validated by the byte-level round trip on 7 ordinal kinds)',
        'packaging.version parsing is third-party: the model receives the parsed components; local version segments are outside the model',
        'Manifest / Package round trips are checked on the implementation only (import machinery and zipfile are runtime)',
    ]

    def corpus(self):
        return [
            {'t': 'nextgen', 'keys': [3], 'commits': 2}, {'t': 'nextgen', 'keys': [1, 3], 'commits': 1}, {'t': 'nextgen', 'keys': [], 'commits': 2},
            {'t': 'repackage', 'name': 'foo', 'package': 'rpc0', 'old_version': '1', 'new_version': '2', 'marker': 'Rc0'},
            {'t': 'install', 'name': 'foo', 'version': '1', 'package': 'acme', 'where': {'source': 'parts.input', 'pipeline': 'pipeline'},
             'style': {'source': 'relative', 'pipeline': 'default'}, 'marker': 'Mc0', 'zip': False},
            {'t': 'install', 'name': 'foo', 'version': '1', 'package': 'acme.core', 'where': {'source': 'source', 'pipeline': 'a.flow'},
             'style': {'source': 'default', 'pipeline': 'absolute'}, 'marker': 'Mc1', 'zip': True},
            # relative module names that merely BEGIN with the package name (no dot after it) are still relative
            {'t': 'install', 'name': 'foo', 'version': '1', 'package': 'acme', 'where': {'source': 'acme_source', 'pipeline': 'pipeline'},
             'style': {'source': 'relative', 'pipeline': 'default'}, 'marker': 'Mc2', 'zip': False},
            {'t': 'install', 'name': 'foo', 'version': '1', 'package': 'pipe', 'where': {'source': 'source', 'pipeline': 'pipeline'},
             'style': {'source': 'default', 'pipeline': 'default'}, 'marker': 'Mc3', 'zip': True},
            {'t': 'install', 'name': 'foo', 'version': '1', 'package': 'acme.core', 'where': {'source': 'acme.core_src', 'pipeline': 'acmeflow.main'},
             'style': {'source': 'relative', 'pipeline': 'relative'}, 'marker': 'Mc4', 'zip': False},
            {'t': 'tag', 'trts': None, 'trord': None, 'okind': 'int', 'tuts': None, 'tuscore': None, 'states': []},
            {'t': 'tag', 'trts': None, 'trord': None, 'okind': 'int', 'tuts': 3, 'tuscore': 1, 'states': [0]},
            {'t': 'versions', 'a': '1.0.0', 'b': '1'},
            {'t': 'versions', 'a': '1.0.dev1', 'b': '1.0a1'},
        ]

    def _version(self, rng):
        if rng.random() < 0.08:
            return rng.choice(['', 'abc', '1..2', '1.0-', 'v', '1.0.x', '1!', '1.0+'])
        s = ''
        if rng.random() < 0.15:
            s += f'{rng.randint(0, 2)}!'
        rel = [rng.randint(0, 11) for _ in range(rng.randint(1, 3))]
        if rng.random() < 0.3:
            rel += [0] * rng.randint(1, 2)
        s += '.'.join(map(str, rel))
        if rng.random() < 0.3:
            s += rng.choice(['a', 'b', 'rc']) + str(rng.randint(0, 3))
        if rng.random() < 0.2:
            s += f'.post{rng.randint(0, 3)}'
        if rng.random() < 0.3:
            s += f'.dev{rng.randint(0, 3)}'
        return s

    def cases(self, rng, tier):
        n = 250 if tier == 'quick' else 2500
        out = []
        for _ in range(n):
            out.append({'t': 'tag', 'trts': rng.choice([None, rng.randint(0, 30)]), 'trord': rng.choice([None, rng.randint(0, 20)]),
                        'okind': rng.choice(OKINDS), 'tuts': rng.choice([None, None, rng.randint(0, 30)]),
                        'tuscore': rng.choice([None, rng.randint(0, 9)]), 'states': rng.sample(range(20), rng.randint(0, 4))})
            if out[-1]['okind'] == 'bool' and out[-1]['trord'] is not None:
                out[-1]['trord'] %= 2  # the bool embedding is injective on {0, 1} only
        for _ in range(n // 4):
            out.append({'t': 'genkey', 'raw': rng.choice([rng.randint(-3, 40), str(rng.randint(-3, 40)), 'x', '', '1.5', '007'])})
        for _ in range(n):
            a = self._version(rng)
            b = a if rng.random() < 0.1 else self._version(rng)
            out.append({'t': 'versions', 'a': a, 'b': b})
        for _ in range(n // 4):
            out.append({'t': 'genlisting', 'keys': [rng.randint(1, 12) for _ in range(rng.randint(0, 8))]})
            keys = []
            while len(keys) < rng.randint(1, 6):
                v = self._version(rng)
                if v and v[0].isdigit() and not any(c in v for c in 'x-+') and '..' not in v and not v.endswith('!'):
                    keys.append(v)
            out.append({'t': 'rellisting', 'keys': keys + rng.sample(keys, min(len(keys), rng.randint(0, 2)))})
        for _ in range(n // 10):
            mods = {k: f'pkg{rng.randint(0, 9)}.mod{rng.randint(0, 9)}' for k in rng.sample(['pipeline', 'source', 'evaluation', 'tuning'], rng.randint(0, 3))}
            out.append({'t': 'manifest', 'name': rng.choice(['foo', 'forml-tutorial', 'my_prj', 'a.b']), 'version': rng.choice(['1', '0.1.dev2', '2!1.0', '1.2rc1.post3']),
                        'package': rng.choice(['foo', 'foo.bar', 'x_y.z']), 'modules': mods})
        for _ in range(max(6, n // 20)):
            # committing into a release whose generation keys have holes (pruned generations): always above the maximum
            keys = sorted(rng.sample(range(1, 15), rng.randint(0, 5)))
            out.append({'t': 'nextgen', 'keys': keys, 'commits': rng.randint(1, 3)})
        for k in range(max(3, n // 40)):
            # a directory-based package re-created as an archive under another manifest
            old, new = rng.sample(['1', '1.1', '2.0.dev1', '0.9'], 2)
            out.append({'t': 'repackage', 'name': 'foo', 'package': f'rp{k}x{rng.randint(0, 999)}', 'old_version': old, 'new_version': new, 'marker': f'R{k}'})
        for k in range(max(4, n // 25)):
            # a package written to disk (directory / zip), installed, and its components loaded
            pkg = rng.choice(['acme', 'acme.core', 'x_y'])
            style = {c: rng.choice(['default', 'relative', 'relative', 'absolute']) for c in ('source', 'pipeline')}
            where = {c: (c if style[c] == 'default' else rng.choice([f'{c}_mod', f'parts.{c}_in', f'a.b.{c}', f'{pkg}_{c}', f'{pkg}{c}.impl']))
                     for c in ('source', 'pipeline')}
            out.append({'t': 'install', 'name': rng.choice(['foo', 'my-prj']), 'version': rng.choice(['1', '0.1.dev2']), 'package': f'{pkg}',
                        'where': where, 'style': style, 'marker': f'M{k}x{rng.randint(0, 99)}', 'zip': rng.random() < 0.5})
        for k in range(max(4, n // 40)):
            # two packages installed one after the other on the same target path: same or different name / version,
            # another principal package and / or module map and content
            def spec(tag, name, version):
                pkg = rng.choice(['ra', 'rb.core', 'rc']) + f'{k}{tag}'
                style = {c: rng.choice(['default', 'relative', 'absolute']) for c in ('source', 'pipeline')}
                where = {c: (c if style[c] == 'default' else rng.choice([f'{c}_mod', f'parts.{c}_in'])) for c in ('source', 'pipeline')}
                return {'name': name, 'version': version, 'package': pkg, 'where': where, 'style': style,
                        'marker': f'R{k}{tag}', 'zip': rng.random() < 0.5}
            name, version = rng.choice(['foo', 'my-prj']), rng.choice(['1', '0.1.dev2'])
            first = spec('a', name, version)
            fmt = first['zip']
            r = rng.random()
            if r < 0.6:
                second = spec('b', name, version)                         # a re-published release
            elif r < 0.8:
                second = spec('b', name, rng.choice(['2', '1.1']))          # the next release
            else:
                second = dict(first)                                       # the very same package again
            # same packaging format: replacing a directory by an archive (or back) on a path the interpreter has already
            # imported from trips over CPython's sys.path_importer_cache in the SAME process - import-system state, not
            # what was written (a fresh process loads it correctly)
            second = {**second, 'zip': fmt}
            out.append({'t': 'reinstall', 'first': first, 'second': second})
        return out

    def run_impl(self, cases):
        from harness.impl import c18 as impl

        return [impl.observe(c) for c in cases]

    def coq_case(self, case, obs):
        t = case['t']
        if 'error' in obs:
            return None if t in ('manifest', 'install', 'reinstall', 'nextgen', 'repackage') else '(C18.CGenKey 1%Z None None)'
        if t == 'tag':
            return (f"(C18.CTag {co(case['trts'], cz, 'Z')} {co(case['trord'], cz, 'Z')} {co(case['tuts'], cz, 'Z')} "
                    f"{co(case['tuscore'], cz, 'Z')} {cl([cz(s) for s in case['states']], 'Z')} {ctag(obs)})")
        if t == 'genkey':
            raw = case['raw']
            try:
                z = int(raw) if not isinstance(raw, str) or raw.strip().lstrip('+-').isdigit() else None
            except ValueError:
                z = None
            if z is None:  # not an integer at all: the model only knows integers - expect refusal
                return None
            return f"(C18.CGenKey {cz(z)} {co(obs['key'], cz, 'Z')} {co(obs['next'], cz, 'Z')})"
        if t == 'versions':
            if obs.get('invalid'):
                return None
            return f"(C18.CVersions {cver(obs['a'])} {cver(obs['b'])} {obs['cmp']})"
        if t == 'genlisting':
            return f"(C18.CGenListing {cl([cz(k) for k in case['keys']], 'Z')} {cl([cz(k) for k in obs['listing']], 'Z')} {co(obs['last'], cz, 'Z')})"
        if t == 'rellisting':
            return f"(C18.CRelListing {cl([cver(p) for p in obs['parts']], 'version')} {cl([cn(r) for r in obs['ranks']], 'nat')})"
        return None

    def oracle(self, case, obs):
        t = case['t']
        if 'error' in obs:
            return f"raised {obs['error']}"
        if t == 'tag':
            want = dict(case)
            if case['trts'] is None:
                want['trord'] = None
            if case['tuts'] is None:
                want['tuscore'] = None
            got = {k: obs[k] for k in ('trts', 'trord', 'tuts', 'tuscore', 'states')}
            if not obs['equal'] or got != {k: want[k] for k in got}:
                return f'tag {case} read back as {obs}'
        elif t == 'genkey':
            raw = case['raw']
            valid = (isinstance(raw, int) and raw >= 1) or (isinstance(raw, str) and raw.isdigit() and int(raw) >= 1)
            if valid and (obs['key'] != int(raw) or obs['next'] != int(raw) + 1):
                return f'generation key {raw!r} -> {obs}'
            if not valid and obs['key'] is not None and not (isinstance(raw, str) and raw.strip().lstrip('+').isdigit()):
                return f'invalid generation key {raw!r} accepted as {obs}'
        elif t == 'versions':
            if obs.get('invalid'):
                return None
            if not obs['consistent']:
                return f"release keys {case['a']} / {case['b']}: ==, hash and < disagree"
            # PEP 440 anchor points written from the specification
            a, b = obs['a'], obs['b']

            def trim(r):
                r = list(r)
                while r and r[-1] == 0:
                    r.pop()
                return r

            if a['epoch'] != b['epoch']:
                want = 'Lt' if a['epoch'] < b['epoch'] else 'Gt'
            elif trim(a['release']) != trim(b['release']):
                want = 'Lt' if trim(a['release']) < trim(b['release']) else 'Gt'
            elif (a['pre'], a['post'], a['dev']) == (b['pre'], b['post'], b['dev']):
                want = 'Eq'
            else:
                want = None
            if want and obs['cmp'] != want:
                return f"{case['a']} vs {case['b']}: ordered {obs['cmp']}, PEP 440 says {want}"
        elif t == 'genlisting':
            want = sorted(set(case['keys']))
            if obs['listing'] != want or obs['last'] != (want[-1] if want else None):
                return f"listing of {case['keys']} is {obs}"
        elif t == 'manifest':
            if not obs['equal'] or obs['modules'] != case['modules'] or obs['package'] != case['package']:
                return f'manifest {case} read back as {obs}'
        elif t == 'nextgen':
            top, want = max(case['keys'], default=0), []
            for _ in range(case['commits']):
                top += 1
                want.append(top)
            if obs['closed'] != want:
                return f"committing {case['commits']} generation(s) over existing keys {case['keys']} stored them as {obs['closed']}, expected {want} (one above the maximum)"
        elif t == 'repackage':
            if obs['created'] != case['new_version'] or obs['reread'] != case['new_version'] or obs['source'] != f"T{case['marker']}[T{case['marker']}.x]":
                return f"package re-created under version {case['new_version']} (the tree carried {case['old_version']}) reads back as {obs}"
        elif t == 'reinstall':
            for which in ('first', 'second'):
                m = case[which]['marker']
                if obs[which] != [f'T{m}[T{m}.x]', f'op{m}']:
                    return f"installing {case['first']} and then {case['second']} on the same path: the {which} install yields components {obs[which]}"
        elif t == 'install':
            m = case['marker']
            if obs['source'] != f'T{m}[T{m}.x]' or obs['pipeline'] != f'op{m}' or not obs['manifest_equal']:
                return f'installing the package {case} yields components {obs}'
        return None

    def nontrivial(self, case, obs):
        t = case['t']
        if t == 'tag':
            return case['trts'] is None or case['okind'] != 'int'
        if t == 'versions':
            return not obs.get('invalid') and obs.get('a', {}).get('release') == obs.get('b', {}).get('release') and case['a'] != case['b']
        if t in ('genlisting', 'rellisting'):
            return len(set(case['keys'])) < len(case['keys'])
        if t == 'install':
            return any('.' in w for w in case['where'].values()) or case['zip']
        if t == 'nextgen':
            return bool(case['keys']) and case['keys'] != list(range(1, len(case['keys']) + 1))
        if t in ('repackage', 'reinstall'):
            return True
        return False

    def distribution(self, cases, observations):
        dist = {'by_type': {}, 'ordinal_kinds': {}, 'absent_training_ts': 0, 'invalid_versions': 0, 'version_cmp': {}}
        for c, o in zip(cases, observations):
            dist['by_type'][c['t']] = dist['by_type'].get(c['t'], 0) + 1
            if c['t'] == 'tag':
                dist['ordinal_kinds'][c['okind']] = dist['ordinal_kinds'].get(c['okind'], 0) + 1
                dist['absent_training_ts'] += c['trts'] is None
            if c['t'] == 'versions':
                dist['invalid_versions'] += bool(o.get('invalid'))
                if 'cmp' in o:
                    dist['version_cmp'][o['cmp']] = dist['version_cmp'].get(o['cmp'], 0) + 1
        return dist


PROP = C18()
