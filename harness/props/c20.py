"""C20 - configuration layering and provider bank (DESIGN.md section 5, C20)."""
import copy

from harness import core
from harness.core import cb, cl, cn, co, cp, cs, cz

KEYS = ['a', 'b', 'c', 'sec', 'opt']
STRS = ['s0', 's1', 'x y', 'z']


def atom(v):
    if isinstance(v, bool):
        return 2000 + int(v)
    if isinstance(v, int):
        return v
    if isinstance(v, str):
        return 1000 + STRS.index(v)
    raise ValueError(v)


def ccfg(v):
    if isinstance(v, dict):
        return 'Tbl ' + cl([cp(cs(k), '(' + ccfg(x) + ')') for k, x in v.items()], 'string * cfg')
    if isinstance(v, (list, tuple)):
        return 'Lst ' + cl([cz(atom(x)) for x in v], 'Z')
    return f'Scalar {cz(atom(v))}'


def py_merge(left, right):
    """Oracle from the property text: later overrides earlier key by key, lists new-first without duplicates."""
    if isinstance(left, dict) and isinstance(right, dict):
        out = dict(left)
        for k, v in right.items():
            out[k] = py_merge(left[k], v) if k in left else v
        return out
    if isinstance(left, list) and isinstance(right, list):
        return list(right) + [v for v in left if v not in right]
    return right


class C20(core.Prop):
    ID = 'C20'
    IMPORTS = 'From FV Require Import Model.C20.'
    CASE_TYPE = 'C20.case'
    CHECK_FUN = 'C20.check_case'
    EXTRA_TARGETS = ['Model/C20.vo', 'Lib/Corr.vo']
    RULE = (
        'stack: 1-4 random nested mappings (depth <= 3, scalars int/str/bool, duplicate-free lists, tables; keys from a '
        'pool of 5 so that overlaps and table/non-table type changes are frequent) written as TOML files and read through '
        'setup.Config (optionally with a non-existent path in between); bank: provider class sets (aliases, qualified '
        'names, abstract intermediates, lazily importable modules, alias collisions) created in random order against a '
        'fresh interface and resolved through Service[reference]. Non-trivial = stack with >= 2 sources sharing a key at '
        'depth >= 2, or bank with >= 3 classes.'
    )
    ASSUMPTIONS = [
        'tomli parsing of the generated TOML files is trusted; list elements are scalars of one type',
        'module import machinery used for lazily loaded provider modules is runtime, exercised by the correspondence only',
    ]

    def corpus(self):
        return [
            {'t': 'stack', 'sources': [{'a': 1, 'sec': {'b': 2, 'c': [1, 2]}}, {'sec': {'b': 5, 'c': [2, 3]}}]},
            {'t': 'stack', 'sources': [{'a': {'b': 1}}, {'a': 7}, {'a': {'c': 2}}]},
        ]

    def _value(self, rng, depth):
        r = rng.random()
        if depth < 3 and r < 0.4:
            return {k: self._value(rng, depth + 1) for k in rng.sample(KEYS, rng.randint(0, 3))}
        if r < 0.65:
            pool = rng.choice([[0, 1, 2, 3, 4, 5], STRS])
            return rng.sample(pool, rng.randint(0, min(4, len(pool))))
        return rng.choice([rng.randint(-3, 9), rng.choice(STRS), rng.random() < 0.5])

    def _variant(self, rng, template):
        out = {}
        for k, v in template.items():
            if rng.random() < 0.25:
                continue
            if rng.random() < 0.1:
                out[k] = self._value(rng, 2)
            elif isinstance(v, dict):
                out[k] = self._variant(rng, v)
            elif isinstance(v, list):
                pool = STRS if v and isinstance(v[0], str) else [0, 1, 2, 3, 4, 5]
                out[k] = rng.sample(pool, rng.randint(0, min(4, len(pool))))
            else:
                out[k] = self._value(rng, 3) if rng.random() < 0.3 else v
        return out

    def cases(self, rng, tier):
        n = 300 if tier == 'quick' else 3000
        out = []
        for _ in range(n):
            if rng.random() < 0.5:
                sources = [{k: self._value(rng, 1) for k in rng.sample(KEYS, rng.randint(1, 4))} for _ in range(rng.randint(1, 4))]
            else:
                # layers derived from one template: the same paths recur with values of the same type, so that
                # lists/tables meet lists/tables repeatedly (3+ layers touching one key)
                template = {k: self._value(rng, 1) for k in rng.sample(KEYS, rng.randint(2, 4))}
                sources = [self._variant(rng, template) for _ in range(rng.randint(2, 4))]
            case = {'t': 'stack', 'sources': sources}
            if rng.random() < 0.15:
                case['gap'] = rng.randint(0, len(sources))
            out.append(case)
        names = ['A', 'B', 'C', 'D', 'E']
        aliases = ['a', 'b', 'c', 'd']
        for _ in range(n // 2):
            k = rng.randint(1, 5)
            classes = []
            collide = rng.random() < 0.3
            for name in names[:k]:
                abstract_parents = [c['name'] for c in classes if c['abstract']]
                abstract = rng.random() < 0.25
                base = rng.choice(['Iface'] + abstract_parents)
                alias = None if abstract or rng.random() < 0.3 else rng.choice(aliases if collide else [name.lower()])
                classes.append({'name': name, 'alias': alias, 'abstract': abstract, 'base': base})
            order = [c for c in classes]
            # keep parents before children, otherwise any order
            rng.shuffle(order)
            order.sort(key=lambda c: 0)  # stable no-op (documentation of intent)
            done, seq = {'Iface'}, []
            pending = order
            while pending:
                nxt = [c for c in pending if c['base'] in done]
                c = nxt[0]
                seq.append(c)
                done.add(c['name'])
                pending = [p for p in pending if p is not c]
            if not collide and rng.random() < 0.4:
                seq.append({'name': 'L', 'alias': 'lz', 'abstract': False, 'base': 'Iface', 'lazy': True})
            lookups = []
            for _ in range(rng.randint(2, 7)):
                if rng.random() < 0.5:
                    lookups.append({'a': rng.choice(aliases + ['e', 'lz', 'zz'])})
                else:
                    lookups.append({'q': rng.choice(names + ['L', 'Nope'])})
            out.append({'t': 'bank', 'classes': seq, 'lookups': lookups})
        return out

    def run_impl(self, cases):
        from harness.impl import c20 as impl

        obs = [impl.observe(c) for c in cases]
        # merge iterates a set of keys and Bank.add a set of references: repeat under other hash seeds (both tiers - a
        # registration that is no longer atomic shows only when the qualified reference happens to be iterated before the alias)
        if True:
            for seed in (('1', '2', '3', '4', '5') if getattr(self, 'tier', 'quick') == 'thorough' else ('1', '2', '3')):
                other = core.impl_subprocess('harness.impl.c20', cases, {'PYTHONHASHSEED': seed})
                for i, (a, b) in enumerate(zip(obs, other)):
                    if a != b and 'error' not in a:
                        obs[i] = {'error': f'result depends on PYTHONHASHSEED={seed}: {a} vs {b}'}
        return obs

    def coq_case(self, case, obs):
        if 'error' in obs:
            return 'C20.CStack nil (Scalar 0%Z)'
        if case['t'] == 'stack':
            srcs = cl(['(' + ccfg(s) + ')' for s in case['sources']], 'cfg')
            return f"(C20.CStack {srcs} ({ccfg(obs['config'])}))"
        classes = [c for c in case['classes'] if not c.get('lazy')] + [c for c in case['classes'] if c.get('lazy')]
        terms = cl([f"(Cls {cs(c['name'])} {co(c['alias'], cs, 'string')} {cb(c['abstract'])})" for c in classes], 'cls')
        lookups = []
        for ref, got in zip(case['lookups'], obs['lookups']):
            r = f"(RQ {cs(ref['q'])})" if 'q' in ref else f"(RA {cs(ref['a'])})"
            o = 'C20.Missing' if got is None else f'(C20.Found {cs(got)})'
            lookups.append(cp(r, o))
        return f"(C20.CBank {terms} {co(obs['refused'], cn, 'nat')} {cl(lookups, 'ref * outcome')})"

    def oracle(self, case, obs):
        if 'error' in obs:
            return f"raised {obs['error']}"
        if case['t'] == 'stack':
            want = {}
            for src in case['sources']:
                want = py_merge(want, copy.deepcopy(src))
            if obs['config'] != want:
                return f"stack of {len(case['sources'])} sources merged to {obs['config']}, expected {want}"
            return None
        taken, refused = {}, None
        eager = [c for c in case['classes'] if not c.get('lazy')]
        for i, c in enumerate(eager):
            refs = [('q', c['name'])] + ([('a', c['alias'])] if c['alias'] else [])
            if any(r in taken and taken[r] != c['name'] for r in refs):
                refused = i
                break
            if not c['abstract']:
                for r in refs:
                    taken[r] = c['name']
        else:
            for c in case['classes']:
                if c.get('lazy'):
                    taken[('q', c['name'])] = taken[('a', c['alias'])] = c['name']
        if obs['refused'] != refused:
            return f"registration refused at {obs['refused']}, expected {refused}"
        for ref, got in zip(case['lookups'], obs['lookups']):
            key = ('q', ref['q']) if 'q' in ref else ('a', ref['a'])
            if got != taken.get(key):
                return f'reference {ref} resolved to {got}, expected {taken.get(key)}'
        return None

    def nontrivial(self, case, obs):
        if case['t'] == 'stack':
            if len(case['sources']) < 2:
                return False
            shared = set.intersection(*(set(k for k, v in s.items() if isinstance(v, dict)) for s in case['sources'][:2]))
            return bool(shared)
        return len(case['classes']) >= 3

    def shrink(self, case):
        out = []
        if case['t'] == 'stack':
            for i in range(len(case['sources'])):
                if len(case['sources']) > 1:
                    out.append({'t': 'stack', 'sources': case['sources'][:i] + case['sources'][i + 1 :]})
                for k in list(case['sources'][i]):
                    src = dict(case['sources'][i])
                    del src[k]
                    out.append({'t': 'stack', 'sources': case['sources'][:i] + [src] + case['sources'][i + 1 :]})
        else:
            for i in range(len(case['lookups'])):
                if len(case['lookups']) > 1:
                    out.append({**case, 'lookups': case['lookups'][:i] + case['lookups'][i + 1 :]})
        return out

    def distribution(self, cases, observations):
        dist = {'by_type': {}, 'sources_per_stack': {}, 'type_changes': 0, 'bank_refused': 0, 'bank_lazy': 0, 'missing_lookups': 0}
        for c, o in zip(cases, observations):
            dist['by_type'][c['t']] = dist['by_type'].get(c['t'], 0) + 1
            if c['t'] == 'stack':
                k = str(len(c['sources']))
                dist['sources_per_stack'][k] = dist['sources_per_stack'].get(k, 0) + 1
                for a, b in zip(c['sources'], c['sources'][1:]):
                    dist['type_changes'] += any(k in b and type(a[k]) is not type(b[k]) for k in a)
            else:
                dist['bank_refused'] += o.get('refused') is not None
                dist['bank_lazy'] += any(x.get('lazy') for x in c['classes'])
                dist['missing_lookups'] += sum(1 for x in o.get('lookups', []) if x is None)
        return dist


PROP = C20()
