"""C05 - registry history is append-only, gap-free and crash-consistent (DESIGN.md section 5, C05)."""
import json

from harness import core
from harness.core import cb, cl, cn, cp, cz

VERSIONS = ['0.9', '0.10', '1.0', '1.1', '2.0']   # in PEP 440 order (0.10 is newer than 0.9)
RANK = {v: i for i, v in enumerate(VERSIONS)}


class C05(core.Prop):
    ID = 'C05'
    IMPORTS = 'From FV Require Import Model.C05.'
    CASE_TYPE = 'C05.case'
    CHECK_FUN = 'C05.check_case'
    EXTRA_TARGETS = ['Model/C05.vo', 'Lib/Corr.vo']
    RULE = (
        'histories of {publish release v (increasing, equal, lower versions), stage states, commit a generation} over the real '
        'posix registry through the asset levels; for EVERY commit and publish of a crash-history the operation is re-run from '
        'a snapshot with the process killed (os._exit in a forked child) before each of its file-system primitives (mkdir, '
        'rename, open-for-write, write_bytes) and inside each write (half of the bytes stored), and a fresh reader lists and '
        'reads everything afterwards (closing a written file is a crash point too: what is still buffered is lost); histories '
        'with > 9 generations and releases 0.9 -> 0.10; histories through one or two long-lived writer processes holding their '
        'release handles, with refused commits and retries. Non-trivial = a history with >= 2 commits, or any crash-history.'
    )
    ASSUMPTIONS = [
        'process death semantics: each primitive atomic and durable in program order (no model of power loss / fsync ordering)',
        'release packages are duck-typed file packages (manifest name/version, path); package contents are covered by C18',
        'the volatile registry and mlflow registry are not exercised',
    ]

    def corpus(self):
        return [
            {'history': [['publish', '1.0'], ['dump', '1.0', 1], ['dump', '1.0', 2], ['commit', '1.0', [1, 2]], ['publish', '0.9'],
                         ['publish', '1.0'], ['dump', '1.0', 3], ['commit', '1.0', [3]], ['publish', '1.1'], ['dump', '1.1', 4], ['commit', '1.1', [4]]],
             'crash': True},
            # more than nine generations of one release and releases crossing 0.9 -> 0.10 (numeric, not textual, order)
            {'history': [['publish', '0.9']] + [x for k in range(1, 12) for x in (['dump', '0.9', k], ['commit', '0.9', [k]])]
                        + [['publish', '0.10'], ['publish', '0.9'], ['dump', '0.10', 20], ['commit', '0.10', [20]]],
             'crash': False},
            # a long-lived writer: a commit that fails (a state was never staged), its retry, and further commits
            {'history': [['publish', '1.0'], ['dump', '1.0', 1], ['commit', '1.0', [1]], ['dump', '1.0', 2], ['commit', '1.0', [2, 3]],
                         ['dump', '1.0', 2], ['dump', '1.0', 3], ['commit', '1.0', [2, 3]], ['dump', '1.0', 4], ['commit', '1.0', [4]], ['publish', '1.1'],
                         ['dump', '1.1', 5], ['commit', '1.1', [5]]],
             'crash': False, 'long_lived': True},
            # two long-lived writers on one release: each looks at the latest generation, then both commit
            {'history': [['publish', '1.0'], ['dump', '1.0', 1], ['commit', '1.0', [1], 0], ['peek', '1.0', 0], ['peek', '1.0', 1], ['dump', '1.0', 2],
                         ['commit', '1.0', [2], 1], ['dump', '1.0', 3], ['commit', '1.0', [3], 0], ['peek', '1.0', 1], ['dump', '1.0', 4], ['commit', '1.0', [4], 0],
                         ['dump', '1.0', 5], ['commit', '1.0', [5], 1]],
             'crash': False, 'long_lived': True},
        ]

    def cases(self, rng, tier):
        n = 24 if tier == 'quick' else 200
        out = []
        for i in range(n):
            published, history, sid = [], [], 0
            for _ in range(rng.randint(2, 9)):
                r = rng.random()
                if not published or r < 0.25:
                    v = rng.choice(VERSIONS)
                    history.append(['publish', v])
                    if not published or RANK[v] > max(RANK[p] for p in published):
                        published.append(v)
                else:
                    rel = rng.choice(published)
                    ids = []
                    for _ in range(rng.randint(0, 3)):
                        sid += 1
                        ids.append(sid)
                        history.append(['dump', rel, sid])
                    rng.shuffle(ids)
                    history.append(['commit', rel, ids])
            case = {'history': history, 'crash': i % 4 == 0}
            if i % 4 == 1:
                # the same kind of history through one long-lived writer process, with failing commits (an unstaged state) mixed in
                hist = []
                for a in history:
                    if a[0] == 'commit' and a[2] and rng.random() < 0.35:
                        hist.append(['commit', a[1], a[2] + [900 + len(hist)]])   # refers to a state that was never staged
                        hist += [['dump', a[1], x] for x in a[2]]                 # ... so everything is staged again for the retry
                    hist.append(a)
                if rng.random() < 0.5:
                    # two writers, each holding its release handles: tag every commit with a writer and let them peek in between
                    tagged = []
                    for a in hist:
                        if a[0] == 'commit':
                            if rng.random() < 0.6:
                                tagged.append(['peek', a[1], rng.randint(0, 1)])
                            a = a + [rng.randint(0, 1)]
                        tagged.append(a)
                    hist = tagged
                case = {'history': hist, 'crash': False, 'long_lived': True}
            out.append(case)
        return out

    def run_impl(self, cases):
        from harness.impl import c05 as impl

        return [impl.observe(c) for c in cases]

    def coq_cases(self, case, obs):
        if 'error' in obs:
            return ['(C05.CRelease nil 0%Z false)']
        terms = []
        # release acceptance
        existing = []
        for action, step in zip(case['history'], obs['steps']):
            if action[0] == 'publish':
                terms.append(f"(C05.CRelease {cl([cz(RANK[v]) for v in existing], 'Z')} {cz(RANK[action[1]])} {cb(step['ok'])})")
                if step['ok']:
                    existing.append(action[1])
        # per release: dumps / commits -> listing
        final = obs['steps'][-1]['after'].get('prj', {}) if obs['steps'] else {}
        for rel in existing:
            actions, have = [], set()
            for action in case['history']:
                if action[0] == 'dump' and action[1] == rel:
                    actions.append(f'(ADump {cn(action[2])})')
                    have.add(action[2])
                elif action[0] == 'commit' and action[1] == rel:
                    if not set(action[2]) <= have:
                        have -= set(action[2])
                        continue                     # refused commit (unstaged state): not an action of the model
                    have -= set(action[2])
                    actions.append(f"(ACommit {cl([cn(s) for s in action[2]], 'nat')})")
            gens = final.get(rel, {}).get('generations', {})
            listing = []
            for g in sorted(gens, key=int):
                if 'states' not in gens[g]:
                    return ['(C05.CRelease nil 0%Z false)']
                listing.append(cp(cn(int(g)), cl([cn(s) for s, _ in gens[g]['states']], 'nat')))
            terms.append(f"(C05.CHistory {cl(actions, 'action')} {cl(listing, 'nat * list nat')})")
        return terms

    # ---- oracle from the property text ---------------------------------------------------------------------------
    def oracle(self, case, obs):
        if 'error' in obs:
            return f"driver: {obs['error']}"
        released, gens, staged = [], {}, {}
        for k, (action, step) in enumerate(zip(case['history'], obs['steps'])):
            before, after = step['before'], step['after']
            # crash consistency
            for crash in step['crashes']:
                view = crash['view']
                if view != before and view != step['complete']:
                    return (f"action {k} {action}: process death at primitive {crash['at']}{' (mid-write)' if crash['partial'] else ''} leaves "
                            f"a reader view that is neither the previous nor the complete new content: {json.dumps(view)[:300]}")
                if 'unreadable' in json.dumps(view):
                    return f"action {k} {action}: listed item with unreadable metadata after a crash at primitive {crash['at']}"
            if action[0] == 'publish':
                v = action[1]
                want_ok = not released or RANK[v] > max(RANK[r] for r in released)
                if step['ok'] != want_ok:
                    return f"action {k}: release {v} {'accepted' if step['ok'] else 'refused'} although existing releases are {released}"
                if step['ok']:
                    released.append(v)
                    gens[v] = []
                if not step['ok'] and after != before:
                    return f'action {k}: a refused release changed the registry'
            elif action[0] == 'peek':
                if after != before:
                    return f'action {k}: looking at a release changed what readers see'
            elif action[0] == 'dump':
                staged.setdefault(action[1], set()).add(action[2])
            elif action[0] == 'commit':
                rel = action[1]
                if not set(action[2]) <= staged.get(rel, set()):
                    # a state of the tag was never staged: the commit must fail and change nothing a reader can see
                    if step['ok']:
                        return f'action {k}: commit {action} succeeded although a state was never staged'
                    if after != before:
                        return f'action {k}: a failed commit changed what readers see: {json.dumps(after)[:300]}'
                    staged.setdefault(rel, set()).difference_update(action[2])   # what it had picked up must be staged again
                    continue
                staged.setdefault(rel, set()).difference_update(action[2])
                gens[rel].append(action[2])
                got = after.get('prj', {}).get(rel, {}).get('generations', {})
                want = {str(i + 1): {'states': [[s, f'state {s}'] for s in ids]} for i, ids in enumerate(gens[rel])}
                if got != want:
                    return f"action {k}: generations of release {rel} are {json.dumps(got)[:300]}, expected {json.dumps(want)[:300]}"
            # everything else byte-identical
            for rel, content in before.get('prj', {}).items():
                now = after.get('prj', {}).get(rel)
                if now is None or now['package'] != content['package']:
                    return f'action {k} {action}: release {rel} package changed or vanished'
                for g, gd in content['generations'].items():
                    if now['generations'].get(g) != gd:
                        return f'action {k} {action}: earlier generation {rel}/{g} changed'
        return None

    def nontrivial(self, case, obs):
        return case.get('crash') or sum(1 for a in case['history'] if a[0] == 'commit') >= 2

    def shrink(self, case):
        return [{**case, 'history': case['history'][:-1]}] if len(case['history']) > 2 else []

    def distribution(self, cases, observations):
        dist = {'actions': {}, 'crash_histories': 0, 'crash_runs': 0, 'refused_releases': 0}
        for c, o in zip(cases, observations):
            for a in c['history']:
                dist['actions'][a[0]] = dist['actions'].get(a[0], 0) + 1
            dist['crash_histories'] += bool(c.get('crash'))
            for s in o.get('steps', []):
                dist['crash_runs'] += len(s['crashes'])
                dist['refused_releases'] += bool(s.get('refused'))
        return dist


PROP = C05()
