"""C12 - cross-validated evaluation and stacking never leak held-out data (DESIGN.md section 5, C12)."""
import json

from harness import core
from harness.core import cl, cn
from harness.props import c03 as c03mod
from harness.symterm import cterm, name_id


def den(ops, xa, xt, y):
    """Documented train/apply semantics of a sequence of decorated operators (as in C03's oracle)."""

    def fit(a, feats, labels):
        return ['state', a[0], a[1], None, feats, labels] if a[2] else None

    for spec in ops:
        ynew = y
        if spec.get('label'):
            lb = spec['label']
            ynew = ['app', lb[0], lb[1], fit(lb, xt, y), [y]]
        xin = xt
        if spec.get('apply'):
            a = spec['apply']
            sa = fit(a, xin, ynew)
            xa = ['app', a[0], a[1], sa, [xa]]
            if spec.get('train') == 'same':
                xt = ['app', a[0], a[1], sa, [xin]]
        if spec.get('train') and spec['train'] != 'same':
            t = spec['train']
            xt = ['app', t[0], t[1], fit(t, xin, ynew), [xin]]
        y = ynew
    return xa, xt, y


def names_term():
    return (f"(Names {cn(name_id('split'))} {cn(name_id('metric'))} {cn(name_id('reduce'))} {cn(name_id('append'))} "
            f"{cn(name_id('stack'))} {cn(name_id('merge'))})")


def flat(tree):
    return c03mod.flatten(tree) if tree else []


class C12(core.Prop):
    ID = 'C12'
    IMPORTS = 'From FV Require Import Lib.Sym Model.C03 Model.C12.'
    CASE_TYPE = 'C12.case'
    CHECK_FUN = 'C12.check_case'
    EXTRA_TARGETS = ['Model/C12.vo', 'Lib/Corr.vo']
    RULE = (
        'eval: random decorated-operator pipelines (incl. label operators, train-only and apply-only actors) evaluated by '
        'the real TrainTestScore with CrossVal (2-5 folds) or HoldOut and a symbolic splitter / metric / reducer; stack: '
        'FullStack with 1-3 base models, 2-4 folds, an optional scope inside the ensemble composition and optional '
        'operators in front of it, train mode and (separately expanded, positionally bound) apply mode; cvfolds: the real '
        'PandasCVFolds actor over arbitrary (train, test) index pairs incl. non-complementary ones and relabelled frames. The symbolic '
        'splitter makes every fold part and the fitted split state visible in the terms. Non-trivial = a stateful '
        'actor in the evaluated/ensembled pipeline.'
    )
    ASSUMPTIONS = [
        'splitters, metrics, reducers, appenders and stackers are uninterpreted symbols (any splitter decisions, all data)',
        'the default pandas based stacker/appender/reducer functions are third-party dependent and not exercised (pandas 3 incompatibilities)',
    ]

    def _expr(self, rng, lo, hi):
        gen = c03mod.PROP
        ops = [gen._spec(rng, k + rng.randint(0, 50) * 10) for k in range(rng.randint(lo, hi))]
        return gen._random_tree(rng, ops)

    def cases(self, rng, tier):
        n = 40 if tier == 'quick' else 160
        out = []
        for _ in range(n):
            folds = rng.randint(2, 3 if tier == 'quick' else 5)
            case = {'t': 'eval', 'expr': self._expr(rng, 1, 3), 'folds': folds}
            if rng.random() < 0.25:
                case['holdout'], case['folds'] = True, 1
            out.append(case)
        for _ in range(n // 2):
            out.append({'t': 'stack', 'folds': rng.randint(2, 3 if tier == 'quick' else 4),
                        'bases': [self._expr(rng, 1, 2) for _ in range(rng.randint(1, 2 if tier == 'quick' else 3))],
                        'scope': self._expr(rng, 1, 2) if rng.random() < 0.6 else None,
                        'pre': self._expr(rng, 1, 2) if rng.random() < 0.4 else None})
            if out[-1]['scope'] is None:
                # without explicit parentheses `pre >> FullStack(...)` makes `pre` the ensemble's scope
                out[-1]['scope'], out[-1]['pre'] = out[-1]['pre'], None
        for _ in range(n // 2):
            rows = rng.randint(3, 9)
            pairs = []
            for _ in range(rng.randint(2, 4)):
                test = sorted(rng.sample(range(rows), rng.randint(1, max(1, rows // 3))))
                pool = [i for i in range(rows) if i not in test]
                # the train part is NOT always the complement of the test part (time-series gaps, explicit train sizes)
                train = sorted(rng.sample(pool, rng.randint(1, len(pool)))) if rng.random() < 0.6 else pool
                pairs.append([train, test])
            case = {'t': 'cvfolds', 'rows': rows, 'pairs': pairs, 'folds': len(pairs)}
            if rng.random() < 0.4:
                case['index'] = rng.sample(range(100, 100 + rows), rows)
            out.append(case)
        return out

    def run_impl(self, cases):
        from harness.impl import c12 as impl

        return [impl.observe(c) for c in cases]

    def coq_case(self, case, obs):
        bad = '(C12.CEval (Names 0 0 0 0 0 0) 0%nat 0%nat (EOp (OpSpec None TNo None)) 1%nat (TProj 9%nat TNone))'
        if 'error' in obs:
            return bad
        if case['t'] == 'cvfolds':
            return None  # the concrete pandas splitter is checked on the implementation only
        if case['t'] == 'eval':
            if len(obs['value']) != 1:
                return bad
            return (f"(C12.CEval {names_term()} {cn(name_id('srcT'))} {cn(name_id('slice'))} {c03mod.cexpr(case['expr'])} "
                    f"{cn(case['folds'])} {cterm(obs['value'][0])})")
        if case.get('pre') or len(obs['train']) != 1 or len(obs['apply']) != 1:
            return None if case.get('pre') else bad  # operators in front of the ensemble: judged by the oracle only
        scope = c03mod.cexpr(case['scope']) if case.get('scope') else None
        if scope is None:
            return None
        return (f"(C12.CStack {names_term()} {cn(name_id('srcA'))} {cn(name_id('srcT'))} {cn(name_id('slice'))} {cn(name_id('probe'))} "
                f"{scope} {cl([c03mod.cexpr(b) for b in case['bases']], 'expr')} {cn(case['folds'])} "
                f"{cterm(obs['train'][0])} {cterm(obs['apply'][0])})")

    # ---- oracle from the property text ----------------------------------------------------------------------------
    def oracle(self, case, obs):
        if 'error' in obs:
            return f"failed: {obs['error']}"
        if case['t'] == 'cvfolds':
            want = [part for a, b in case['pairs'] for part in (a, b)]
            if obs['features'] != want or obs['labels'] != want:
                return (f"the index-synchronised splitter delivered features {obs['features']} / labels {obs['labels']} for the "
                        f"fold indices {case['pairs']} (expected ports 2i = train part, 2i+1 = held-out part: {want})")
            return None
        sl = ['app', 'slice', 0, None, [['app', 'srcT', 0, None, []]]]
        XA, X, Y = ['app', 'srcA', 0, None, []], ['proj', 0, sl], ['proj', 1, sl]
        if case['t'] == 'stack' and case.get('pre'):
            XA, X, Y = den(flat(case['pre']), XA, X, Y)
        state = ['state', 'split', 0, None, X, Y]
        fs, ls = ['app', 'split', 0, state, [X]], ['app', 'split', 0, state, [Y]]
        part = lambda s, j: ['proj', j, s]
        norm = lambda t: json.loads(json.dumps(t))
        if case['t'] == 'eval':
            metrics = []
            for i in range(case['folds']):
                # trained only on the training part of fold i, predicting its held-out part, paired with ITS true outcomes
                pred, _, _ = den(flat(case['expr']), part(fs, 2 * i + 1), part(fs, 2 * i), part(ls, 2 * i))
                metrics.append(['app', 'metric', 0, None, [part(ls, 2 * i + 1), pred]])
            want = metrics[0] if len(metrics) == 1 else ['app', 'reduce', 0, None, metrics]
            if obs['value'] != [norm(want)]:
                return f"evaluation value {json.dumps(obs['value'])[:400]} is not the fold-wise held-out scoring {json.dumps(want)[:400]}"
            return None
        scope = flat(case.get('scope'))
        train_cols, apply_cols = [], []
        for base in case['bases']:
            stacked, merged = [], []
            for i in range(case['folds']):
                def base_on(inp):
                    a, t, y = den(scope, inp, part(fs, 2 * i), part(ls, 2 * i))
                    return den(flat(base), a, t, y)[0]
                stacked.append(base_on(part(fs, 2 * i + 1)))
                merged.append(base_on(XA))
            train_cols.append(['app', 'stack', 0, None, stacked])
            apply_cols.append(['app', 'merge', 0, None, merged])
        want_train = ['app', 'probe', 0, None, [['app', 'append', 0, None, train_cols]]]
        want_apply = ['app', 'probe', 0, None, [['app', 'append', 0, None, apply_cols]]]
        if obs['train'] != [norm(want_train)]:
            return f"stacked train features {json.dumps(obs['train'])[:400]} are not the fold-ordered held-out predictions"
        if obs['apply'] != [norm(want_apply)]:
            return f"apply-mode ensemble output {json.dumps(obs['apply'])[:400]} does not combine all fold models on the same input"
        return None

    def nontrivial(self, case, obs):
        if case['t'] == 'cvfolds':
            return any(sorted(a + b) != list(range(case['rows'])) for a, b in case['pairs'])
        trees = [case.get('expr'), case.get('scope'), case.get('pre')] + list(case.get('bases', []))
        return any(a and a != 'same' and a[2] for t in trees if t for o in flat(t) for a in (o.get('apply'), o.get('train'), o.get('label')))

    def distribution(self, cases, observations):
        dist = {'by_type': {}, 'folds': {}, 'holdout': 0, 'bases': {}, 'with_scope': 0, 'with_pre': 0}
        for c in cases:
            dist['by_type'][c['t']] = dist['by_type'].get(c['t'], 0) + 1
            dist['folds'][str(c['folds'])] = dist['folds'].get(str(c['folds']), 0) + 1
            dist['holdout'] += bool(c.get('holdout'))
            if c['t'] == 'stack':
                k = str(len(c['bases']))
                dist['bases'][k] = dist['bases'].get(k, 0) + 1
                dist['with_scope'] += bool(c.get('scope'))
                dist['with_pre'] += bool(c.get('pre'))
        return dist


PROP = C12()
