"""C09 - a feed is selected exactly when it can resolve the statement (DESIGN.md section 5, C09)."""
from harness import core, dslgen
from harness.core import cb, cl, cn, co, cz

_TAGS = {}


def tag(desc_rest):
    key = core.canon(desc_rest)
    if key not in _TAGS:
        _TAGS[key] = len(_TAGS) + 1
    return _TAGS[key]


TABLE_ID = {'A': 0, 'B': 1, 'C': 2}


def csrc(d):
    t = d[0]
    if t == 'table':
        return f'(STable {cn(TABLE_ID[d[1]])})'
    if t == 'ref':
        return f'(SRef {csrc(d[1])} {cn(tag(d[2]))})'
    if t == 'join':
        return f'(SJoin {csrc(d[2])} {csrc(d[3])} {cn(tag([d[1], d[4]]))})'
    if t == 'set':
        return f'(SSet {csrc(d[2])} {csrc(d[3])} {cn(tag(d[1]))})'
    return f'(SQuery {csrc(d[1])} {cn(tag(d[2]))})'


def subsources(d):
    """All sources occurring in a statement description (itself included)."""
    out = [d]
    t = d[0]
    if t == 'ref' or t == 'query':
        out += subsources(d[1])
    elif t in ('join', 'set'):
        out += subsources(d[2]) + subsources(d[3])
    return out


def py_match(S, d):
    key = core.canon(d)
    if d[0] == 'table':
        return key in S
    if key in S:
        return True
    if d[0] in ('ref', 'query'):
        return py_match(S, d[1])
    return py_match(S, d[2]) and py_match(S, d[3])


def tables_of(d):
    return [x for x in subsources(d) if x[0] == 'table']


class C09(core.Prop):
    ID = 'C09'
    IMPORTS = 'From FV Require Import Model.C09.'
    CASE_TYPE = 'C09.case'
    CHECK_FUN = 'C09.check_case'
    EXTRA_TARGETS = ['Model/C09.vo', 'Lib/Corr.vo']
    RULE = (
        'statements (tables, references, joins of 2-3 tables in any visiting order, nested queries, set operations) x pools '
        'of 1-3 feeds with configured priorities (ties, explicit instances) whose advertised sources are arbitrary subsets '
        'of the tables and sub-sources (references, joins, sub-queries, sets) of the statement and of the catalog; observed '
        'the selected feed (or the missing-source error) and whether the selected feed\'s real parser resolves the statement. '
        'Non-trivial = a pool of >= 2 feeds with >= 1 non-matching feed, or a feed advertising a non-table source.'
    )
    ASSUMPTIONS = [
        'feeds are minimal io.Feed subclasses; priorities come from setup.Feed descriptors of the live configuration',
        'the parser used for the resolution check is the alchemy reader parser over the selected feed\'s own source mapping',
    ]

    def _statement(self, rng):
        A, B, C = ['table', 'A'], ['table', 'B'], ['table', 'C']
        eq = lambda l, r: ['bin', '==', l, r]
        opts = [
            A, B,
            ['join', 'inner', A, B, eq(['col', 'A', 'x'], ['col', 'B', 'x'])],
            ['join', 'left', B, A, eq(['col', 'A', 'id'], ['col', 'B', 'id'])],
            ['join', 'inner', ['join', 'inner', A, B, eq(['col', 'A', 'x'], ['col', 'B', 'x'])], C, eq(['col', 'A', 'id'], ['col', 'C', 'id'])],
            ['join', 'inner', C, ['join', 'inner', A, B, eq(['col', 'A', 'x'], ['col', 'B', 'x'])], eq(['col', 'A', 'id'], ['col', 'C', 'id'])],
            ['join', 'inner', A, ['ref', B, 'bb'], eq(['col', 'A', 'id'], ['elem', 'bb', 'id'])],
            ['query', A, {'sel': [['col', 'A', 'x']], 'pre': ['bin', '>', ['col', 'A', 'x'], ['lit', 1]], 'grp': [], 'post': None, 'ord': [], 'rows': None}],
            ['set', 'union', ['query', A, {'sel': [['col', 'A', 'id']], 'pre': None, 'grp': [], 'post': None, 'ord': [], 'rows': None}],
             ['query', C, {'sel': [['col', 'C', 'id']], 'pre': None, 'grp': [], 'post': None, 'ord': [], 'rows': None}]],
            ['query', ['join', 'inner', A, B, eq(['col', 'A', 'x'], ['col', 'B', 'x'])],
             {'sel': [['col', 'A', 'x'], ['col', 'B', 'z']], 'pre': None, 'grp': [], 'post': None, 'ord': [], 'rows': None}],
        ]
        return rng.choice(opts)

    def cases(self, rng, tier):
        n = 300 if tier == 'quick' else 3000
        out = []
        for _ in range(n):
            stmt = self._statement(rng)
            subs = subsources(stmt)
            universe = subs + [['table', 'A'], ['table', 'B'], ['table', 'C']]
            pool = []
            for _ in range(rng.randint(1, 3)):
                style = rng.random()
                if style < 0.35:
                    srcs = tables_of(stmt) + ([] if rng.random() < 0.6 else [rng.choice(universe)])
                    if rng.random() < 0.4 and srcs:
                        srcs = srcs[:-1] if rng.random() < 0.5 else srcs[1:]
                else:
                    srcs = rng.sample(universe, rng.randint(0, min(4, len(universe))))
                uniq = []
                for s in srcs:
                    if s not in uniq:
                        uniq.append(s)
                pool.append({'priority': rng.choice([None, 1, 1, 2, 5]), 'sources': uniq})
            if rng.random() < 0.3:
                # one long-lived importer serving several statements in a row
                out.append({'pool': pool, 'statements': [stmt] + [self._statement(rng) for _ in range(rng.randint(1, 3))]})
            else:
                out.append({'pool': pool, 'statement': stmt})
        return out

    def run_impl(self, cases):
        from harness.impl import c09 as impl

        return [impl.observe(c) for c in cases]

    def coq_cases(self, case, obs):
        if 'statements' in case and 'error' not in obs:
            return [self.coq_case({'pool': case['pool'], 'statement': st}, o) for st, o in zip(case['statements'], obs['results'])]
        return [self.coq_case(case, obs)]

    def coq_case(self, case, obs):
        if 'error' in obs:
            return '(C09.CSelect nil (STable 0) (Some 0%nat) None)'
        pool = cl([f"(Feed {co(f['priority'], cz, 'Z')} {cl([csrc(s) for s in f['sources']], 'src')})" for f in case['pool']], 'feed')
        return f"(C09.CSelect {pool} {csrc(case['statement'])} {co(obs['selected'], cn, 'nat')} {co(obs['parses'], cb, 'bool')})"

    def oracle(self, case, obs):
        if 'error' in obs:
            return f"raised {obs['error']}"
        if 'statements' in case:
            for k, (st, o) in enumerate(zip(case['statements'], obs['results'])):
                problem = self.oracle({'pool': case['pool'], 'statement': st}, o)
                if problem:
                    return f'statement {k} on the same importer: {problem}'
            return None
        stmt = case['statement']
        covers = [py_match({core.canon(s) for s in f['sources']}, stmt) for f in case['pool']]
        prio = [float('inf') if f['priority'] is None else f['priority'] for f in case['pool']]
        if not any(covers):
            return None if obs['selected'] is None else f"feed {obs['selected']} selected although no feed covers the statement"
        best = max(p for p, c in zip(prio, covers) if c)
        want = next(i for i, (p, c) in enumerate(zip(prio, covers)) if c and p == best)
        if obs['selected'] != want:
            return f"feed {obs['selected']} selected, the highest-priority covering feed (ties in pool order) is {want}"
        if obs['parses'] is False:
            return f"the selected feed {want} cannot resolve the statement (unprovisioned source)"
        return None

    def signature(self, case, obs, problem):
        if 'statements' in case:
            sigs = {self.signature({'pool': case['pool'], 'statement': st}, o, p) for st, o in zip(case['statements'], obs['results'])
                    for p in [self.oracle({'pool': case['pool'], 'statement': st}, o)] if p}
            return sigs.pop() if len(sigs) == 1 else None
        if 'cannot resolve the statement' in problem:
            f = case['pool'][obs['selected']]
            keys = {core.canon(s) for s in f['sources']}
            missing = [t for t in tables_of(case['statement']) if core.canon(t) not in keys]
            if missing and any(s[0] != 'table' for s in f['sources']):
                return 'C09/non-table-source-matched-but-unparseable'
        return None

    def nontrivial(self, case, obs):
        return len(case['pool']) >= 2 or any(s[0] != 'table' for f in case['pool'] for s in f['sources'])

    def shrink(self, case):
        out = []
        for i in range(len(case['pool'])):
            if len(case['pool']) > 1:
                out.append({**case, 'pool': case['pool'][:i] + case['pool'][i + 1 :]})
            f = case['pool'][i]
            if 'statements' in case and len(case['statements']) > 1:
                out.append({**case, 'statements': case['statements'][:-1]})
            for j in range(len(f['sources'])):
                g = {**f, 'sources': f['sources'][:j] + f['sources'][j + 1 :]}
                out.append({**case, 'pool': case['pool'][:i] + [g] + case['pool'][i + 1 :]})
        return out

    def distribution(self, cases, observations):
        dist = {'pool_sizes': {}, 'missing': 0, 'selected_unparseable': 0, 'non_table_sources': 0, 'priority_ties': 0}
        for c, o in zip(cases, observations):
            k = str(len(c['pool']))
            dist['pool_sizes'][k] = dist['pool_sizes'].get(k, 0) + 1
            dist['missing'] += o.get('selected') is None and 'results' not in o
            dist['selected_unparseable'] += o.get('parses') is False
            dist['sequences'] = dist.get('sequences', 0) + ('statements' in c)
            dist['non_table_sources'] += any(s[0] != 'table' for f in c['pool'] for s in f['sources'])
            pr = [f['priority'] for f in c['pool']]
            dist['priority_ties'] += len(set(map(str, pr))) < len(pr)
        return dist


PROP = C09()
