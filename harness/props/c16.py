"""C16 - concurrent serving never crosses, loses or duplicates responses (DESIGN.md section 5, C16)."""
import json
import pathlib
import re
import shutil
import subprocess
import tempfile

from harness import core
from harness.core import cb, cl, cn, cp, cz

ERR = {'MissingError:app': 'EUnknownApp', 'Unsupported': 'EEncoding', 'MissingError:features': 'EMissing'}


def expected(case, r):
    """Property text: the outcome of the caller's own payload on the model its application selects, or its own error."""
    req = case['requests'][r]
    gen = dict(case['apps']).get(req['app'])
    if gen is None:
        return ['err', 'EUnknownApp']
    if req['badenc']:
        return ['err', 'EEncoding']
    if req['missing']:
        return ['err', 'EMissing']
    if req.get('badaccept'):
        return ['err', 'EEncoding']      # the outcome cannot be encoded into anything the caller accepts
    return ['ok', gen, case['mult'][str(gen)] * req['value']]


def classify(answer):
    """Canonical form of what the caller received."""
    if answer[0] == 'ok':
        gen = int(answer[1].rsplit('-', 1)[1])
        return ['ok', gen, answer[2][0] if len(answer[2]) == 1 else answer[2]]
    kind, text = answer[1], answer[2]
    if kind == 'MissingError' and text.startswith('Application '):
        return ['err', 'EUnknownApp']
    if kind == 'Unsupported':
        return ['err', 'EEncoding']
    if kind == 'MissingError' and 'provide all features' in text:
        return ['err', 'EMissing']
    return ['err', f'{kind}: {text}']


def to_actions(case, obs):
    """The instrumented scheduling trace as a schedule of the model (None when it cannot be read as one)."""
    byval = {r['value']: k for k, r in enumerate(case['requests'])}
    tasks, inwork, results, owner, inst, early = {}, {}, {}, {}, {}, set()
    acts = []
    events = sorted(obs['trace'])
    submitted = set()
    for ev in events:
        if ev[2] == 'submit':
            m = re.search(r"'r(-?\d+)'", ev[6])
            if not m or int(m.group(1)) not in byval:
                return None
            submitted.add(byval[int(m.group(1))])
    for r in range(len(case['requests'])):
        if r not in submitted:
            acts.append(f'(AExtract {cn(r)})')
    for ev in events:
        kind, tok = ev[2], ev[3]
        if kind == 'submit':
            r = byval[int(re.search(r"'r(-?\d+)'", ev[6]).group(1))]
            if ev[4] != sum(1 for k in owner if k[0] == tok):
                return None                       # task ids are allocated consecutively per executor
            inst[tok] = int(ev[5].rsplit('-', 1)[1])
            owner[(tok, ev[4])] = r
            tasks.setdefault(tok, []).append(ev[4])
            inwork.setdefault(tok, [])
            results.setdefault(tok, [])
            acts += [f'(AExtract {cn(r)})', f'(ASubmit {cn(r)})']
            continue
        if tok not in inst:
            return None
        i = inst[tok]
        if kind == 'take':
            if (tok, ev[4]) in early:
                continue
            while tasks[tok] and tasks[tok][0] != ev[4]:
                head = tasks[tok].pop(0)          # taken by another worker whose log line comes later
                early.add((tok, head))
                inwork[tok].insert(0, head)
                acts.append(f'(ATake {cn(i)})')
            if not tasks[tok]:
                return None
            inwork[tok].insert(0, tasks[tok].pop(0))
            acts.append(f'(ATake {cn(i)})')
        elif kind == 'finish':
            if ev[4] not in inwork[tok]:
                return None
            n = inwork[tok].index(ev[4])
            inwork[tok].pop(n)
            results[tok].append(ev[4])
            acts.append(f'(AFinish {cn(i)} {cn(n)})')
        elif kind == 'deliver':
            if ev[4] not in results[tok]:
                return None
            n = results[tok].index(ev[4])
            results[tok].pop(n)
            acts.append(f'(ADeliver {cn(i)} {cn(n)})')
            r = owner[(tok, ev[4])]
            if not case['requests'][r]['missing']:
                acts.append(f'(ARespond {cn(r)})')     # for an unsupported accept list this is where the request fails
    return acts


class C16(core.Prop):
    ID = 'C16'
    IMPORTS = 'From FV Require Import Model.C16.'
    CASE_TYPE = 'C16.case'
    CHECK_FUN = 'C16.check_case'
    EXTRA_TARGETS = ['Model/C16.vo', 'Lib/Corr.vo']
    RULE = (
        'batches of 1..24 (quick) / 1..64 (thorough) concurrent requests through the real serving Engine (asyncio gather; real '
        'prediction executors, manager queues, spawned pools of 1-4 forked workers) over 1-3 applications selecting 1-3 model '
        'instances with distinct states, seeded per-request processing delays (0-30 ms inside the model actor; in half of the '
        'batches one straggler of 300-1200 ms with late arrivals submitted only after an earlier request was answered) and arrival '
        'offsets, a slowed inventory listing to widen the descriptor-lookup window, with unknown-application / '
        'unsupported-encoding / missing- or misnamed-feature / unsupported-accept requests injected at random positions, permuted columns; observed: what every caller received '
        'and the instrumented scheduling trace (submit / take / finish / deliver per executor), which is replayed as a run of '
        'the model. Non-trivial = a batch of >= 4 requests over >= 2 instances or with a failing request.'
    )
    ASSUMPTIONS = [
        'the application descriptors are application.Generic with Explicit selectors; requests are JSON rows; the served project is harness/c16pkg (one stateful scaling actor sleeping for the row delay)',
        'the scheduling trace comes from the FORML_VERIF-guarded hook in forml/runtime/_service/prediction.py; events of different processes are ordered by CLOCK_MONOTONIC',
    ]

    def corpus(self):
        mk = lambda app, v, **kw: {'app': app, 'value': v, 'delay': kw.get('delay', 0), 'badenc': kw.get('badenc', False), 'missing': kw.get('missing', False),
                                   'arrival': kw.get('arrival', 0)}
        return [
            # a request that arrives after another one has been answered while a slow third is still in flight (one and
            # two workers): task identities must stay unique over the whole life of the executor, not only within a backlog
            {'apps': [[0, 1]], 'mult': {'1': 7}, 'workers': 1, 'list_delay': 0.0,
             'requests': [mk(0, 1), mk(0, 2, delay=1200), {**mk(0, 3), 'after': 0}, {**mk(0, 4), 'after': 2}]},
            {'apps': [[0, 1], [1, 2]], 'mult': {'1': 7, '2': 11}, 'workers': 2, 'list_delay': 0.0,
             'requests': [mk(0, 1), mk(0, 2, delay=900), mk(1, 3), {**mk(0, 4), 'after': 0}, {**mk(0, 5, delay=300), 'after': 0}, {**mk(0, 6), 'after': 3},
                          {**mk(1, 7), 'after': 2}]},
            # concurrent first lookups of two different applications while the inventory listing is slow (descriptor cache race)
            {'apps': [[0, 1], [1, 2], [2, 1]], 'mult': {'1': 3, '2': 50}, 'workers': 2, 'list_delay': 0.08,
             'requests': [mk(0, 1), mk(1, 2), mk(2, 3), mk(0, 4, arrival=5), mk(1, 5, arrival=5)]},
            # a slow request in front of fast ones on a single worker, and a failing one in between
            {'apps': [[0, 1]], 'mult': {'1': 7}, 'workers': 1, 'list_delay': 0.0,
             'requests': [mk(0, 1, delay=40), mk(0, 2, missing=True), mk(0, 3), mk(9, 4), mk(0, 5, badenc=True), mk(0, 6, arrival=10)]},
            # more requests in flight on one executor than any small id space: a straggler and 69 fast ones
            {'apps': [[0, 1]], 'mult': {'1': 3}, 'workers': 2, 'list_delay': 0.0,
             'requests': [mk(0, 1, delay=250)] + [mk(0, k) for k in range(2, 71)]},
            # a request with a misnamed feature first, then well-formed ones with the same column types (one of them permuted)
            {'apps': [[0, 1], [1, 2]], 'mult': {'1': 3, '2': 11}, 'workers': 2, 'list_delay': 0.0,
             'requests': [{**mk(0, 1), 'missing': True, 'misnamed': True}, mk(0, 2, arrival=30), {**mk(1, 3, arrival=30), 'permuted': True}, mk(1, 4, arrival=40),
                          mk(0, 5, arrival=40)]},
            # a request whose accept list no encoder can serve (fails in the responder pool), others in flight and later
            {'apps': [[0, 1], [1, 2]], 'mult': {'1': 3, '2': 11}, 'workers': 2, 'list_delay': 0.0,
             'requests': [mk(0, 1), {**mk(0, 2), 'badaccept': True}, mk(1, 3), {**mk(1, 4, arrival=20), 'badaccept': True}, mk(0, 5, arrival=40), mk(1, 6, arrival=60),
                          mk(0, 7, arrival=80)]},
        ]

    def cases(self, rng, tier):
        out = []
        for _ in range(6 if tier == 'quick' else 40):
            ngen = rng.randint(1, 3)
            mult = {str(g): rng.choice([2, 3, 5, 7, 11, 50, 100]) + g for g in range(1, ngen + 1)}
            napps = rng.randint(1, 3)
            apps = [[a, rng.randint(1, ngen)] for a in range(napps)]
            n = rng.randint(1, 24 if tier == 'quick' else 64)
            reqs = []
            for k in range(n):
                fault = rng.random()
                reqs.append({
                    'app': 9 if fault < 0.08 else rng.randrange(napps),
                    'value': k + 1,
                    'delay': rng.choice([0, 0, 0, 2, 5, 10, 30]),
                    'badenc': 0.08 <= fault < 0.16,
                    'missing': 0.16 <= fault < 0.24,
                    'misnamed': 0.16 <= fault < 0.20,          # the missing feature is there under a wrong name (same dtypes)
                    'permuted': fault >= 0.24 and rng.random() < 0.3,
                    'badaccept': 0.24 <= fault < 0.30,         # valid payload, but no encoder for what the caller accepts
                    'arrival': rng.choice([0, 0, 0, 1, 3, 10, 20]),
                })
            if n >= 3 and rng.random() < 0.5:
                # late arrivals: one slow request in flight, some requests submitted only after an earlier one was answered
                reqs[rng.randrange(n)]['delay'] = rng.choice([300, 600, 900])
                for k in rng.sample(range(1, n), min(n - 1, rng.randint(1, 4))):
                    reqs[k]['after'] = rng.randrange(k)
            out.append({'apps': apps, 'mult': mult, 'workers': rng.randint(1, 4), 'list_delay': rng.choice([0.0, 0.0, 0.03, 0.08]), 'requests': reqs})
        return out

    def _run(self, case):
        tmp = pathlib.Path(tempfile.mkdtemp(prefix='c16run', dir='/var/tmp'))
        try:
            (tmp / 'in.json').write_text(json.dumps(case))
            env = core.impl_env({'FORML_HOME': str(tmp / 'home'), 'FORML_VERIF': '1', 'FORML_VERIF_TRACE': str(tmp / 'trace.jsonl')})
            proc = subprocess.run(['/venv/bin/python', '-W', 'ignore', '-m', 'harness.impl.c16', str(tmp / 'in.json'), str(tmp / 'out.json')],
                                  cwd=str(core.ROOT), env=env, capture_output=True, text=True, timeout=900)
            if proc.returncode >= 0 and (proc.returncode or not (tmp / 'out.json').exists()):
                return {'error': f'driver failed rc={proc.returncode}: {proc.stderr[-500:]}'}
            try:    # killed by a signal: an abort at interpreter teardown after the complete answer was written is not a failure
                return json.loads((tmp / 'out.json').read_text())
            except (OSError, ValueError):
                return {'error': f'driver failed rc={proc.returncode}: {proc.stderr[-500:]}'}
        except subprocess.TimeoutExpired:
            return {'error': 'the engine did not answer the batch within 900 s'}
        finally:
            shutil.rmtree(tmp, ignore_errors=True)

    def run_impl(self, cases):
        from concurrent.futures import ThreadPoolExecutor

        with ThreadPoolExecutor(max_workers=4) as pool:
            return list(pool.map(self._run, cases))

    def coq_cases(self, case, obs):
        if 'error' in obs:
            return []
        acts = to_actions(case, obs)
        if acts is None:
            return ['(C16.CServe nil nil nil 0 (cons (ARespond 0) nil) nil)']  # unreadable trace: a case that fails the replay
        got = []
        for a in obs['answers']:
            c = classify(a)
            if c[0] == 'ok' and isinstance(c[2], int):
                got.append(f'(Ok {cn(c[1])} {cz(c[2])})')
            elif c[0] == 'err' and c[1] in ('EUnknownApp', 'EEncoding', 'EMissing'):
                got.append(f'(Err {c[1]})')
            else:
                got.append('(Ok 999999 0%Z)')  # something the model never produces
        reqs = cl([f"{{| r_app := {cn(r['app'])}; r_payload := {cz(r['value'])}; r_badenc := {cb(r['badenc'])}; r_missing := {cb(r['missing'])}; r_badaccept := {cb(bool(r.get('badaccept')))} |}}"
                   for r in case['requests']], 'request')
        apps = cl([cp(cn(a), cn(g)) for a, g in case['apps']], 'nat * nat')
        mult = cl([cp(cn(int(g)), cz(m)) for g, m in case['mult'].items()], 'nat * Z')
        return [f"(C16.CServe {apps} {mult} {reqs} {cn(case['workers'])} {cl(acts, 'action')} {cl(got, 'answer')})"]

    def oracle(self, case, obs):
        if 'error' in obs:
            return obs['error']
        problems = []
        for r, a in enumerate(obs['answers']):
            got, want = classify(a), expected(case, r)
            if got != want:
                problems.append(f'request {r} (app {case["requests"][r]["app"]}, payload {case["requests"][r]["value"]}) received {got} instead of {want}')
        return '; '.join(problems[:4]) if problems else None

    def nontrivial(self, case, obs):
        gens = {g for _, g in case['apps']}
        return (len(case['requests']) >= 4 and len(gens) >= 2) or any(r['badenc'] or r['missing'] or r.get('badaccept') or r['app'] == 9 for r in case['requests'])

    def shrink(self, case):
        out = []
        n = len(case['requests'])
        if n > 1:
            out.append({**case, 'requests': case['requests'][: n // 2]})
            out.append({**case, 'requests': case['requests'][n // 2:]})
        return out

    def distribution(self, cases, observations):
        dist = {'batch_sizes': [len(c['requests']) for c in cases], 'workers': {}, 'instances': {}, 'faults': {'unknown_app': 0, 'bad_encoding': 0, 'missing_features': 0},
                'trace_events': 0, 'traces_readable': 0, 'slow_listing': 0}
        for c, o in zip(cases, observations):
            dist['workers'][str(c['workers'])] = dist['workers'].get(str(c['workers']), 0) + 1
            k = str(len({g for _, g in c['apps']}))
            dist['instances'][k] = dist['instances'].get(k, 0) + 1
            dist['slow_listing'] += c['list_delay'] > 0
            for r in c['requests']:
                dist['faults']['unknown_app'] += r['app'] == 9
                dist['faults']['bad_encoding'] += r['badenc']
                dist['faults']['missing_features'] += r['missing']
                dist['faults']['unsupported_accept'] = dist['faults'].get('unsupported_accept', 0) + bool(r.get('badaccept'))
            dist['trace_events'] += len(o.get('trace', []))
            dist['traces_readable'] += 'error' not in o and to_actions(c, o) is not None
        return dist


PROP = C16()
