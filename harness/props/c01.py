"""C01 - compiled instruction table preserves the task-graph dataflow (DESIGN.md section 5, C01)."""
import json

from harness import core, symterm
from harness.core import cb, cl, cn, co, cp, cz
from harness.symterm import cterm, name_id

ATOM_P = ['app', 'prevF', 0, None, []]
ATOM_Q = ['app', 'prevL', 0, None, []]


def cnode(d):
    if 'train' in d:
        kind = f"(KTrain {cp(cn(d['train'][0]), cn(d['train'][1]))} {cp(cn(d['label'][0]), cn(d['label'][1]))})"
    else:
        kind = '(KApply ' + cl([cp(cn(s), cn(p)) for s, p in d['inputs']], 'nat * nat') + ')'
    return f"(Node {cn(name_id(d['name']))} {cz(-7 if d.get('hp', 0) is None else d.get('hp', 0))} {cn(d['gid'])} {cb(d['stateful'])} {cn(d['szout'])} {kind})"


def csym(sym, case):
    op, args = sym
    bad = 999
    if op[0] == 'functor' and op[2] in ('apply', 'train') and op[1] >= 0:
        cop = f"(C01Compile.OFunctor {cn(op[1])} {cb(op[2] == 'train')} {cb(op[3])})"
    elif op[0] == 'loader' and op[1] >= 0:
        cop = f"(C01Compile.OLoader {cn(case['nodes'][op[1]]['gid'])})"
    elif op[0] == 'dumper':
        cop = 'C01Compile.ODumper'
    elif op[0] == 'committer':
        cop = 'C01Compile.OCommitter'
    elif op[0] == 'getter':
        cop = f'(C01Compile.OGetter {cn(op[1])})'
    else:
        cop = f'(C01Compile.OGetter {cn(bad)})'  # unclassifiable instruction: can never match the model
    return cp(cop, cl([cn(a if a >= 0 else bad) for a in args], 'nat'))


def py_eval(case):
    """Oracle: direct evaluation of the task graph as the property text describes it."""
    nodes = case['nodes']
    pers = case.get('persistent')
    previous = {nodes[i]['gid']: case['previous'].get(str(i)) for i in pers} if pers is not None else {}
    out, trained = [], {}
    for d in nodes:
        if 'train' in d:
            prev = previous.get(d['gid']) if pers is not None else None
            st = ['state', d['name'], d.get('hp', 0), prev, out[d['train'][0]][d['train'][1]], out[d['label'][0]][d['label'][1]]]
            trained[d['gid']] = st
            out.append([st])
        else:
            st = None
            if d['stateful']:
                st = trained.get(d['gid'], previous.get(d['gid']) if pers is not None else None)
            app = ['app', d['name'], d.get('hp', 0), st, [out[s][p] for s, p in d['inputs']]]
            out.append([app] if d['szout'] == 1 else [['proj', i, app] for i in range(d['szout'])])
    committed = None
    if pers and trained:  # the committer exists only when some persistent group is trained in this segment
        committed = [trained.get(nodes[i]['gid']) for i in pers]
    loads = [] if pers is None else [k for k, i in enumerate(pers)]
    return out[case['tail']][0], committed, loads


class C01(core.Prop):
    ID = 'C01'
    IMPORTS = 'From FV Require Import Lib.Sym Model.C01 Model.C01Compile Model.C01Each.'
    CASE_TYPE = 'C01Each.ecase'
    CHECK_FUN = 'C01Each.check_ecase'
    EXTRA_TARGETS = ['Model/C01.vo', 'Model/C01Compile.vo', 'Model/C01Each.vo', 'Lib/Corr.vo']
    RULE = (
        'random well-formed segments of 3-9 nodes: a source, stateless workers with 1-2 inputs and 1-3 outputs (unused '
        'ports allowed), stateful groups with one trained member fed on train/label from arbitrary upstream ports and 0-2 '
        'applied forks, applied-only stateful workers, a collecting tail; connection calls issued in a random order (this '
        'varies the traversal order, e.g. fork visited before its trained sibling); without assets and with a random '
        'subset/order of persistent groups with or without previous states. The real flow.compile output is executed by '
        'an independent interpreter; sink term, committed states and loaded offsets are compared with the denotation. The '
        'emitted table itself (instruction kinds, owner nodes, preset flags, argument positions, emission order) must equal '
        'the output of the Gallina compiler model under the recorded Table.add order, be accepted by the proved validator, '
        'and evaluate inside Coq to the same sink term; the recorded order of Table.add calls must equal the modelled '
        'Traversal.each element for element. '
        'Non-trivial = a multi-output node or a fork group with applied members.'
    )
    ASSUMPTIONS = [
        'actors are uninterpreted symbols (free terms): equality of terms implies equality under every payload and actor function',
        'the compiler internals (Linkage, Index, alias merge, stub pruning) are modelled executably (Model/C01Compile.v) and tied by symbol-for-symbol comparison; acceptance of the model output by the validator is computed per case, not proved for all graphs',
        'the traversal order (Traversal.each: depth-first over ordered subscription lists) is recorded from the real run, compared with its Gallina model and fed to the compiler model',
        'uuid generation is irrelevant to the observations',
    ]

    def corpus(self):
        return [
            {'nodes': [{'gid': 0, 'name': 'src', 'stateful': False, 'szin': 0, 'szout': 1, 'inputs': []}], 'tail': 0,
             'persistent': None, 'previous': {}, 'conn': []},
        ]

    def _case(self, rng, tier):
        nodes = [{'gid': 0, 'name': 'src', 'stateful': False, 'szin': 0, 'szout': rng.randint(1, 3), 'inputs': []}]
        gid = 1
        used = set()  # (node, port) already consumed by an apply input (fan-out allowed: do not restrict)

        def pick():
            cands = [(i, p) for i, d in enumerate(nodes) if 'train' not in d for p in range(d['szout'])]
            return list(rng.choice(cands))

        target = rng.randint(2, 7 if tier == 'quick' else 10)
        while len(nodes) < target:
            r = rng.random()
            if r < 0.45:
                szin = rng.randint(1, 2)
                nodes.append({'gid': gid, 'name': f'f{gid}', 'stateful': False, 'szin': szin, 'szout': rng.choice([1, 1, 2, 3]),
                              'inputs': [pick() for _ in range(szin)], 'hp': rng.randint(0, 3)})
                gid += 1
            elif r < 0.85:
                szout = rng.choice([1, 1, 2])
                hp = rng.randint(0, 3)
                base = {'gid': gid, 'name': f's{gid}', 'stateful': True, 'szin': 1, 'szout': szout, 'hp': hp}
                members = []
                if rng.random() < 0.8:
                    members.append({**base, 'train': pick(), 'label': pick()})
                for _ in range(rng.randint(0 if members else 1, 2)):
                    members.append({**base, 'inputs': [pick()]})
                nodes.extend(members)
                gid += 1
            else:
                nodes.append({'gid': gid, 'name': f'a{gid}', 'stateful': True, 'szin': 1, 'szout': 1, 'inputs': [pick()], 'hp': 1})
                gid += 1
        consumed = {(s, p) for d in nodes for s, p in d.get('inputs', [])} | {tuple(d[k]) for d in nodes if 'train' in d for k in ('train', 'label')}
        dangling = [i for i, d in enumerate(nodes) if 'train' not in d and not any((i, p) in consumed for p in range(d['szout']))]
        inputs = [[i, rng.randrange(nodes[i]['szout'])] for i in dangling] or [[0, 0]]
        nodes.append({'gid': gid, 'name': 'sink', 'stateful': False, 'szin': len(inputs), 'szout': 1, 'inputs': inputs})
        case = {'nodes': nodes, 'tail': len(nodes) - 1}
        conn = list(range(1, len(nodes)))
        rng.shuffle(conn)
        case['conn'] = conn
        stateful_groups = {}
        for i, d in enumerate(nodes):
            if d['stateful']:
                stateful_groups.setdefault(d['gid'], []).append(i)
        trainers = {g for g, idx in stateful_groups.items() if any('train' in nodes[i] for i in idx)}
        any_trainer = bool(trainers)
        if rng.random() < 0.3 or not stateful_groups:
            case['persistent'], case['previous'] = None, {}
        else:
            pool = [g for g in stateful_groups if (g in trainers or not any_trainer)]
            chosen = rng.sample(pool, rng.randint(0, len(pool)))
            reps = [stateful_groups[g][0] for g in chosen]
            case['persistent'] = reps
            case['previous'] = {}
            for i in reps:
                if rng.random() < 0.6:
                    case['previous'][str(i)] = ['state', nodes[i]['name'], nodes[i].get('hp', 0), None, ATOM_P, ATOM_Q]
        return case

    def cases(self, rng, tier):
        n = 250 if tier == 'quick' else 2500
        out = []
        while len(out) < n:
            case = self._case(rng, tier)
            sink, _, _ = py_eval(case)
            if symterm.size(sink) < 4000:
                out.append(case)
        return out

    def run_impl(self, cases):
        from harness.impl import c01 as impl

        return [impl.observe(c) for c in cases]

    def coq_case(self, case, obs):
        pers = case.get('persistent')
        if pers is None:
            assets = 'None'
        else:
            rows = [cp(cn(case['nodes'][i]['gid']), cterm(case['previous'].get(str(i)))) for i in pers]
            assets = '(Some ' + cl(rows, 'nat * term') + ')'
        nodes = cl([cnode(d) for d in case['nodes']], 'node')
        visit = cl([cn(i) for i in obs.get('visit', [])], 'nat')
        if 'error' in obs or len(obs['sink']) != 1:
            behaviour = '(C01.CSegment nil None 0%nat (TProj 0%nat TNone) None nil)'
            table = f"(C01Compile.CTable {nodes} {assets} {visit} {cn(case['tail'])} None TNone)"
            return f"(C01Each.ECase (C01Compile.FCase {behaviour} {table}) {cl([cn(i) for i in case.get('conn') or range(1, len(case['nodes']))], 'nat')})"
        commit = co(obs['committed'], lambda l: cl([cterm(t) for t in l], 'term'), 'list term')
        behaviour = (f"(C01.CSegment {nodes} {assets} {cn(case['tail'])} "
                     f"{cterm(obs['sink'][0])} {commit} {cl([cn(x) for x in obs['loads'] or []], 'nat')})")
        real = '(Some ' + cl([csym(s, case) for s in obs['table']], 'C01Compile.sym') + ')'
        table = f"(C01Compile.CTable {nodes} {assets} {visit} {cn(case['tail'])} {real} {cterm(obs['sink'][0])})"
        conn = cl([cn(i) for i in case.get('conn') or range(1, len(case['nodes']))], 'nat')
        return f'(C01Each.ECase (C01Compile.FCase {behaviour} {table}) {conn})'

    def oracle(self, case, obs):
        if 'error' in obs:
            return f"valid segment failed: {obs['error']}"
        sink, committed, loads = py_eval(case)
        norm = lambda x: json.loads(json.dumps(x))
        if len(obs['sink']) != 1 or obs['sink'][0] != norm(sink):
            return f"sink value {json.dumps(obs['sink'])[:300]} differs from direct evaluation {json.dumps(sink)[:300]}"
        if obs['committed'] != norm(committed):
            return f"committed states {json.dumps(obs['committed'])[:300]} differ from {json.dumps(committed)[:300]}"
        if obs['max_calls'] != 1 or obs['functors'] != len(case['nodes']):
            return f"tasks run: {obs['functors']} functors for {len(case['nodes'])} nodes, max calls {obs['max_calls']}"
        if case.get('persistent') is not None and obs['loads'] != loads:
            return f"loaded offsets {obs['loads']} but persistent groups are {loads}"
        return None

    def nontrivial(self, case, obs):
        return any(d['szout'] > 1 for d in case['nodes']) or any('train' in d for d in case['nodes'])

    def shrink(self, case):
        out = []
        if case.get('persistent'):
            out.append({**case, 'persistent': None, 'previous': {}})
            out.append({**case, 'previous': {}})
        out.append({**case, 'conn': sorted(case['conn'])})
        return out

    def distribution(self, cases, observations):
        dist = {'nodes': {}, 'multi_output': 0, 'with_trainer': 0, 'with_forks': 0, 'persistent': 0, 'with_previous': 0}
        for c in cases:
            k = str(len(c['nodes']))
            dist['nodes'][k] = dist['nodes'].get(k, 0) + 1
            dist['multi_output'] += any(d['szout'] > 1 for d in c['nodes'])
            dist['with_trainer'] += any('train' in d for d in c['nodes'])
            gids = [d['gid'] for d in c['nodes'] if d['stateful'] and 'train' not in d]
            tg = {d['gid'] for d in c['nodes'] if 'train' in d}
            dist['with_forks'] += any(g in tg for g in gids)
            dist['persistent'] += c.get('persistent') is not None
            dist['with_previous'] += bool(c.get('previous'))
        return dist


PROP = C01()
