"""C02 - every runner executes a compiled workflow with identical results (DESIGN.md section 5, C02)."""
import json

from harness import core
from harness.core import cb, cl, cn, co, cp, cz
from harness.props import c01 as c01mod
from harness.symterm import cterm, name_id


def csym(row):
    sid, kind, args = row
    if kind[0] == 'get':
        ins = f'(IGet {cn(kind[1])})'
    elif kind[0] == 'load':
        ins = f'(ILoad {cterm(kind[1])})'
    elif kind[0] == 'funs':
        ins = f'(IFunS {cn(name_id(kind[1]))} {cz(-7 if kind[2] is None else kind[2])} {cn(kind[3])})'
    else:
        ins = f'(IFun {cn(name_id(kind[1]))} {cz(-7 if kind[2] is None else kind[2])} {cn(kind[3])} false)'
    return f"(Sym {cn(sid)} {ins} {cl([cn(a) for a in args], 'nat')})"


def coutcome(o):
    if o is None or 'crash' in o or o.get('sink') is None:
        return 'C02.Crash'
    return f"(C02.Value {cterm(o['sink'])})"


class C02(core.Prop):
    ID = 'C02'
    IMPORTS = 'From FV Require Import Lib.Sym Model.C02.'
    CASE_TYPE = 'C02.case'
    CHECK_FUN = 'C02.check_case'
    EXTRA_TARGETS = ['Model/C02.vo', 'Lib/Corr.vo']
    RULE = (
        'tables compiled by the real flow.compile from the random segments of C01 (fan-out at any depth, unequal branch '
        'lengths, shared sub-results, multi-output getters, state loaders): apply-mode tables run on the reference '
        'interpreter, on pyfunc.Expression (called twice) and on dask under the synchronous and threads schedulers '
        '(+ processes in the thorough tier); train-mode tables on the reference interpreter and dask. The sink records what it '
        'receives into a file. Half of the apply-mode tables with two stateful groups of equal arity build both groups from '
        'ONE builder object, each persistent with its own stored state. The pyfunc model must predict value or crash of both calls exactly. Non-trivial = a table '
        'with a shared instruction (>= 2 consumers) or a getter.'
    )
    ASSUMPTIONS = [
        'dask schedulers, pure=True key de-duplication (tokenisation) and process pickling are runtime behaviour exercised by the correspondence only',
        'the source actor ignores the call argument pyfunc hands to the head task',
    ]

    def corpus(self):
        src = {'gid': 0, 'name': 'src', 'stateful': False, 'szin': 0, 'szout': 1, 'inputs': []}
        f = lambda g, ins, o=1: {'gid': g, 'name': f'f{g}', 'stateful': False, 'szin': len(ins), 'szout': o, 'inputs': ins}
        return [
            # a hyper-parameter explicitly set to None (overriding a non-None default) on stateful actors, also under the
            # scheduler that pickles the instructions
            {'nodes': [{'gid': 20_000, 'name': 'src', 'stateful': False, 'szin': 0, 'szout': 1, 'inputs': []},
                       {'gid': 0, 'name': 'pre', 'stateful': False, 'szin': 1, 'szout': 2, 'inputs': [[0, 0]]},
                       {'gid': 1, 'name': 's1', 'stateful': True, 'szin': 1, 'szout': 1, 'hp': None, 'inputs': [[1, 0]]},
                       {'gid': 2, 'name': 's2', 'stateful': True, 'szin': 1, 'szout': 1, 'hp': None, 'inputs': [[1, 1]]},
                       {'gid': 3, 'name': 'sink', 'stateful': False, 'szin': 2, 'szout': 1, 'inputs': [[2, 0], [3, 0]]}],
             'tail': 4, 'conn': [1, 2, 3, 4], 'persistent': [2, 3],
             'previous': {'2': ['state', 's1', None, None, c01mod.ATOM_P, c01mod.ATOM_Q], '3': ['state', 's2', None, None, c01mod.ATOM_P, c01mod.ATOM_Q]},
             'schedulers': ['synchronous', 'threads', 'processes']},
            # fan-out at the head (known finding: construction crash)
            {'nodes': [src, f(1, [[0, 0]]), f(2, [[0, 0]]), {**f(3, [[1, 0], [2, 0]]), 'name': 'sink'}], 'tail': 3, 'persistent': None, 'previous': {}},
            # shorter branch evaluated first (known finding: pop before push)
            {'nodes': [src, f(1, [[0, 0]]), f(2, [[1, 0]]), f(3, [[1, 0]]), f(4, [[3, 0]]), {**f(5, [[2, 0], [4, 0]]), 'name': 'sink'}], 'tail': 5,
             'persistent': None, 'previous': {}},
            # a shared result used at unequal depths: its consumer is first met by the ordering walk as a direct argument of
            # the tail and later again, deeper, through another path - T(A(c1(F)), X(c2(F)), c2) and the getter variant
            # T(L(F[0]), R(F[1]), F[1])
            {'nodes': [src, f(1, [[0, 0]]), f(2, [[1, 0]]), f(3, [[1, 0]]), f(4, [[2, 0]]), f(5, [[3, 0]]),
                       {**f(6, [[4, 0], [5, 0], [3, 0]]), 'name': 'sink'}], 'tail': 6, 'persistent': None, 'previous': {}},
            {'nodes': [src, f(1, [[0, 0]], 2), f(2, [[1, 0]]), f(3, [[1, 1]]), {**f(4, [[2, 0], [3, 0], [1, 1]]), 'name': 'sink'}], 'tail': 4,
             'persistent': None, 'previous': {}},
            # longer branch first: fine
            {'nodes': [src, f(1, [[0, 0]]), f(2, [[1, 0]]), f(3, [[1, 0]]), f(4, [[3, 0]]), {**f(5, [[4, 0], [2, 0]]), 'name': 'sink'}], 'tail': 5,
             'persistent': None, 'previous': {}},
        ]

    def cases(self, rng, tier):
        n = 150 if tier == 'quick' else 1200
        gen = c01mod.PROP
        out = []
        while len(out) < n:
            case = gen._case(rng, tier)
            if len(out) % 3 != 2:  # apply mode: drop trained members (their forks stay, possibly persistent)
                keep = [i for i, d in enumerate(case['nodes']) if 'train' not in d and i != case['tail']]
                remap = {old: new for new, old in enumerate(keep)}
                nodes = []
                for i in keep:
                    d = dict(case['nodes'][i])
                    d['inputs'] = [[remap[s], p] for s, p in d['inputs']]
                    nodes.append(d)
                # a fresh collecting tail over everything that would otherwise dangle
                consumed = {(s_, p_) for d in nodes for s_, p_ in d['inputs']}
                dangling = [i for i, d in enumerate(nodes) if not any((i, p_) in consumed for p_ in range(d['szout']))]
                inputs = [[i, rng.randrange(nodes[i]['szout'])] for i in dangling] or [[0, 0]]
                rng.shuffle(inputs)
                nodes.append({'gid': 10_000, 'name': 'sink', 'stateful': False, 'szin': len(inputs), 'szout': 1, 'inputs': inputs})
                conn = list(range(1, len(nodes)))
                rng.shuffle(conn)
                case = {'nodes': nodes, 'tail': len(nodes) - 1, 'conn': conn}
                stateful = sorted({d['gid'] for d in nodes if d['stateful']})
                if stateful and rng.random() < 0.6:
                    chosen = rng.sample(stateful, rng.randint(0, len(stateful)))
                    reps = [next(i for i, d in enumerate(nodes) if d['gid'] == g) for g in chosen]
                    case['persistent'] = reps
                    case['previous'] = {str(i): ['state', nodes[i]['name'], nodes[i].get('hp', 0), None, c01mod.ATOM_P, c01mod.ATOM_Q]
                                        for i in reps if rng.random() < 0.7}
                else:
                    case['persistent'], case['previous'] = None, {}
                groups = {}
                for i, d in enumerate(nodes):
                    if d['stateful']:
                        groups.setdefault((d['szout'],), {}).setdefault(d['gid'], []).append(i)
                twins = [g for g in groups.values() if len(g) >= 2]
                if twins and rng.random() < 0.5:
                    # two worker groups built from ONE builder object, each persistent with its own stored state
                    g1, g2 = rng.sample(sorted(rng.choice(twins)), 2)
                    proto = nodes[next(i for i, d in enumerate(nodes) if d['gid'] == g1)]
                    for d in nodes:
                        if d['gid'] == g2:
                            d['name'], d['hp'] = proto['name'], proto.get('hp', 0)
                    reps = [next(i for i, d in enumerate(nodes) if d['gid'] == g) for g in (g1, g2)]
                    others = [i for i in (case['persistent'] or []) if nodes[i]['gid'] not in (g1, g2)]
                    case['persistent'] = others + reps
                    rng.shuffle(case['persistent'])
                    case['previous'] = {k: v for k, v in case['previous'].items() if int(k) in others}
                    case['previous'][str(reps[0])] = ['state', proto['name'], proto.get('hp', 0), None, c01mod.ATOM_P, c01mod.ATOM_Q]
                    case['previous'][str(reps[1])] = ['state', proto['name'], proto.get('hp', 0), None, c01mod.ATOM_Q, c01mod.ATOM_P]
                    case['share'] = True
            if rng.random() < 0.7:
                # a single-consumer head (the head fan-out defect of pyfunc would otherwise mask everything behind it)
                nodes = [{'gid': 20_000, 'name': 'src', 'stateful': False, 'szin': 0, 'szout': 1, 'inputs': []}]
                for i, d in enumerate(case['nodes']):
                    d = dict(d)
                    if i == 0:
                        d.update(name='pre', szin=1, inputs=[[0, 0]])
                    elif 'train' in d:
                        d['train'], d['label'] = [d['train'][0] + 1, d['train'][1]], [d['label'][0] + 1, d['label'][1]]
                    else:
                        d['inputs'] = [[s_ + 1, p_] for s_, p_ in d['inputs']]
                    nodes.append(d)
                conn = list(range(1, len(nodes)))
                rng.shuffle(conn)
                case = {**case, 'nodes': nodes, 'tail': case['tail'] + 1, 'conn': conn,
                        'persistent': None if case.get('persistent') is None else [i + 1 for i in case['persistent']],
                        'previous': {str(int(k) + 1): v for k, v in case.get('previous', {}).items()}}
            if tier == 'thorough' and len(out) % 10 == 0:
                case['schedulers'] = ['synchronous', 'threads', 'processes']
            out.append(case)
        return out

    def run_impl(self, cases):
        from harness.impl import c02 as impl

        return [impl.observe(c) for c in cases]

    def coq_case(self, case, obs):
        if 'error' in obs:
            return '(C02.CTable nil (C02.Value TNone) C02.Crash C02.Crash)'
        if obs.get('table') is None:
            return None  # train-mode table: no pyfunc, dask vs reference handled by the oracle
        table = cl([csym(r) for r in obs['table']], 'symbol')
        return f"(C02.CTable {table} {coutcome(obs['reference'])} {coutcome(obs['pyfunc'][0])} {coutcome(obs['pyfunc'][1])})"

    def oracle(self, case, obs):
        if 'error' in obs:
            return f"raised {obs['error']}"
        ref = obs['reference']
        if 'crash' in ref:
            return f"reference evaluation of a valid table failed: {ref['crash']}"
        for scheduler, got in obs['dask'].items():
            if got != ref:
                return f"dask[{scheduler}] delivered {json.dumps(got)[:300]} but the table denotes {json.dumps(ref)[:300]}"
        for k, got in enumerate(obs.get('pyfunc') or []):
            if 'crash' in got:
                return f"pyfunc {got['crash']} on a table that the reference and dask execute (call {k + 1})"
            if got['sink'] != ref['sink']:
                return f"pyfunc call {k + 1} delivered {json.dumps(got)[:300]} instead of {json.dumps(ref['sink'])[:300]}"
        return None

    def signature(self, case, obs, problem):
        if problem.startswith('pyfunc init: IndexError') or problem.startswith('pyfunc init: AssertionError'):
            consumers = sum(1 for d in case['nodes'] for s, _ in d.get('inputs', []) if s == 0)
            if consumers >= 2 or case['nodes'][0]['szout'] > 1:
                return 'C02/pyfunc-head-fanout'
        if problem.startswith('pyfunc call: IndexError: pop from an empty deque'):
            return 'C02/pyfunc-pop-before-push'
        return None

    def nontrivial(self, case, obs):
        table = obs.get('table') or []
        uses = {}
        for _, _, args in table:
            for a in args:
                uses[a] = uses.get(a, 0) + 1
        return any(v > 1 for v in uses.values()) or any(k[0] == 'get' for _, k, _ in table)

    def distribution(self, cases, observations):
        dist = {'apply_mode': 0, 'train_mode': 0, 'pyfunc_ok': 0, 'pyfunc_init_crash': 0, 'pyfunc_call_crash': 0, 'with_loader': 0, 'schedulers': {}}
        for c, o in zip(cases, observations):
            if o.get('table') is None:
                dist['train_mode'] += 1
            else:
                dist['apply_mode'] += 1
                first = o['pyfunc'][0]
                dist['pyfunc_ok'] += 'crash' not in first
                dist['pyfunc_init_crash'] += first.get('crash', '').startswith('init')
                dist['pyfunc_call_crash'] += first.get('crash', '').startswith('call')
                dist['with_loader'] += any(k[0] == 'load' for _, k, _ in o['table'])
            for s in o.get('dask', {}):
                dist['schedulers'][s] = dist['schedulers'].get(s, 0) + 1
        return dist


PROP = C02()
