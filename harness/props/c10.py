"""C10 - ordinal windows (DESIGN.md section 5, C10)."""
import ast
import datetime
import inspect
import operator
import textwrap

from harness import core
from harness.core import cb, cl, co, cp, cs, cz

KINDS = ['integer', 'float', 'date', 'timestamp', 'string']
SEMS = {'EXACTLY': 'Exactly', 'ATMOST': 'Atmost', 'ATLEAST': 'Atleast'}
CMP = {operator.ge: 'CGe', operator.gt: 'CGt', operator.lt: 'CLt', operator.le: 'CLe'}


def embed(kind: str, z: int):
    """Monotone embedding of the model's Z ordinals into a value of the column kind."""
    if kind == 'integer':
        return z
    if kind == 'float':
        return z * 0.5
    if kind == 'date':
        return datetime.date(2020, 1, 1) + datetime.timedelta(days=z)
    if kind == 'timestamp':
        return datetime.datetime(2020, 1, 1, 12, 0, 0) + datetime.timedelta(hours=z)
    if kind == 'string':
        return f'k{z + 500:04d}'
    raise ValueError(kind)


class C10(core.Prop):
    ID = 'C10'
    IMPORTS = 'From FV Require Import Model.C10Base Generated.C10Once Model.C10.'
    CASE_TYPE = 'C10.case'
    CHECK_FUN = 'C10.check_case'
    EXTRA_TARGETS = ['Model/C10.vo', 'Lib/Corr.vo']
    RULE = (
        'windows: ordinal kind x semantic spelling x increasing bound sequence (bounds on data values, 0, negative, '
        'open ends) x random data, run in train AND apply mode through Source.query -> Feed.load -> driver actor -> Statement.prepare -> alchemy Parser -> sqlite; '
        'prepared: Feed.load with/without ordinal and falsy bounds in both modes; train: Runner.train lower-bound '
        'continuation; alias: every spelling incl. case variants and junk. Non-trivial = a windows case with >= 2 '
        'windows and a data value equal to a bound, or a prepared/train case with a falsy bound.'
    )
    ASSUMPTIONS = [
        'ordinal kinds embed monotonically into Z (integer, float, date, timestamp, string are exercised by the correspondence)',
        'SQLAlchemy compilation and sqlite comparison semantics are trusted to implement >=, >, <, <= on each kind',
        'the datetime-bound-on-Date-column cast deviation (DESIGN.md C10) is outside the generated inputs',
    ]

    # ---- source-derived constants --------------------------------------------------------------
    def generated(self):
        from forml import project

        once = project.Source.Extract.Ordinal.Once
        lower, upper = [], []
        for name, ctor in SEMS.items():
            member = getattr(once, name, None)
            lo = CMP.get(getattr(getattr(member, 'value', None), 'lower', None), 'CUnknown')
            hi = CMP.get(getattr(getattr(member, 'value', None), 'upper', None), 'CUnknown')
            lower.append(f'{ctor} => {lo}')
            upper.append(f'{ctor} => {hi}')
        # candidate spellings: every string constant of _missing_ plus the member names/values
        spellings = set()
        try:
            tree = ast.parse(textwrap.dedent(inspect.getsource(once._missing_.__func__)))
            spellings |= {n.value for n in ast.walk(tree) if isinstance(n, ast.Constant) and isinstance(n.value, str)}
        except (OSError, TypeError, AttributeError):
            pass
        spellings |= {m.lower() for m in SEMS}
        rows = []
        for sp in sorted(spellings):
            if not all(32 <= ord(c) < 127 for c in sp) or len(sp) > 40:
                continue
            try:
                member = once(sp)
            except ValueError:
                continue
            if member.name in SEMS:
                rows.append(f'({cs(sp)}, {SEMS[member.name]})')
        text = (
            '(* GENERATED from forml.project.Source.Extract.Ordinal.Once of the current /repo tree - do not edit *)\n'
            'Require Import String List. Import ListNotations.\n'
            'From FV Require Import Model.C10Base.\n'
            f"Definition once_lower (s : sem) : cmp := match s with {' | '.join(lower)} end.\n"
            f"Definition once_upper (s : sem) : cmp := match s with {' | '.join(upper)} end.\n"
            f"Definition aliases : list (string * sem) := {cl(rows, 'string * sem')}.\n"
        )
        return {'C10Once.v': text}

    # ---- cases -----------------------------------------------------------------------------------
    def corpus(self):
        return [
            {'t': 'prepared', 'ordinal': False, 'lo': 0, 'hi': None},
            {'t': 'prepared', 'ordinal': False, 'lo': None, 'hi': 0},
            {'t': 'train', 'lo': 0, 'tag': 7},
            {'t': 'windows', 'kind': 'integer', 'sp': 'atleast', 'bounds': [None, 0, 3, None], 'data': [-1, 0, 1, 3, 4]},
            {'t': 'windows', 'kind': 'integer', 'sp': 'exactly', 'bounds': [-1, 1, 3, 5], 'data': [-2, -1, 0, 1, 2, 3, 4, 5], 'via_feed': True},
        ]

    def cases(self, rng, tier):
        n = 300 if tier == 'quick' else 3000
        spellings = [None, 'exactly', 'atmost', 'atleast', 'MOST', 'At-Least-Once', 'exactly-once', 'least', 'exact']
        out = []
        for _ in range(n):
            kind = rng.choice(KINDS)
            sp = rng.choice(spellings)
            k = rng.randint(1, 5)
            lo = rng.randint(-6, 4)
            bounds = sorted(rng.sample(range(lo, lo + 10), k))
            if rng.random() < 0.3 and 0 not in bounds and rng.random() < 0.7:
                bounds = sorted(set(bounds) | {0})
            seq = list(bounds)
            if rng.random() < 0.4:
                seq = [None] + seq
            if rng.random() < 0.4:
                seq = seq + [None]
            if len(seq) < 2:
                seq = seq + [None]
            data = [rng.randint(lo - 2, lo + 11) for _ in range(rng.randint(0, 8))]
            data += rng.sample(bounds, min(len(bounds), rng.randint(0, 2)))
            case = {'t': 'windows', 'kind': kind, 'sp': sp, 'bounds': seq, 'data': sorted(data)}
            if kind in ('integer', 'float', 'string') and len(out) % 6 == 0:
                case['via_feed'] = True      # through the real alchemy.Feed (reader + result cache shared by all windows)
            out.append(case)
        for _ in range(n // 5):
            out.append(
                {
                    't': 'prepared',
                    'ordinal': rng.random() < 0.5,
                    'lo': rng.choice([None, 0, 0, rng.randint(-3, 3)]),
                    'hi': rng.choice([None, 0, rng.randint(-3, 5)]),
                }
            )
            out.append({'t': 'train', 'lo': rng.choice([None, 0, rng.randint(-3, 3)]), 'tag': rng.choice([None, 0, 5, -2])})
        junk = ['exactly', 'EXACT', 'most', 'At-Most', 'atleastonce', 'once', '', 'at_most', 'exactly_once', 'least ', 'ATLEAST']
        for sp in junk:
            out.append({'t': 'alias', 'sp': sp})
        return out

    # ---- implementation ----------------------------------------------------------------------------
    def run_impl(self, cases):
        from harness.impl import c10 as impl

        return [impl.observe(c) for c in cases]

    # ---- Coq printing --------------------------------------------------------------------------------
    def coq_case(self, case, obs):
        raise NotImplementedError

    def coq_cases(self, case, obs):
        t = case['t']
        if obs.get('error'):
            # the model has no error outcome for a valid configuration: force a mismatch
            return ["(C10.CWindows None nil [((None, None), [(0)%Z])])"]
        if t == 'windows':
            terms = []
            for mode in ('train', 'apply'):
                rows = []
                for (lo, hi), got in zip(zip(case['bounds'], case['bounds'][1:]), obs['rows'][mode]):
                    rows.append(cp(cp(co(lo, cz, 'Z'), co(hi, cz, 'Z')), cl([cz(v) for v in got], 'Z')))
                terms.append(
                    f"(C10.CWindows {co(case['sp'], cs, 'String.string')} {cl([cz(v) for v in case['data']], 'Z')} "
                    f"{cl(rows, '(option Z * option Z) * list Z')})"
                )
            return terms
        if t == 'prepared':
            terms = []
            for mode in ('train', 'apply'):
                o = obs[mode]
                if o['verdict'] == 'refused':
                    term = 'C10.Refused'
                elif o['verdict'] == 'unfiltered':
                    term = 'C10.Unfiltered'
                else:
                    term = f"(C10.Filtered {co(o['lo'], cz, 'Z')} {co(o['hi'], cz, 'Z')})"
                terms.append(f"(C10.CPrepared {cb(case['ordinal'])} {co(case['lo'], cz, 'Z')} {co(case['hi'], cz, 'Z')} {term})")
            return terms
        if t == 'train':
            return [f"(C10.CTrain {co(case['lo'], cz, 'Z')} {co(case['tag'], cz, 'Z')} {co(obs['lower'], cz, 'Z')})"]
        if t == 'alias':
            return [f"(C10.CAlias {cs(case['sp'])} {co(obs['sem'], lambda s: s, 'sem')})"]
        raise ValueError(t)

    # ---- property oracle (from the property text, independent of the model) ------------------------------
    def oracle(self, case, obs):
        t = case['t']
        if t == 'windows':
            if obs.get('error'):
                return f"valid window configuration raised {obs['error']}"
            for mode in ('train', 'apply'):
                problem = self._windows_oracle(case, obs['sem'], obs['rows'][mode])
                if problem:
                    return f'{mode} mode: {problem}'
            return None
        if t == 'prepared':
            for mode in ('train', 'apply'):
                problem = self._prepared_oracle(case, obs[mode])
                if problem:
                    return f'{mode} mode: {problem}'
            return None
        if t == 'train':
            if case['lo'] is not None and obs['lower'] != case['lo']:
                return f"explicit lower bound {case['lo']} replaced by {obs['lower']}"
            return None
        return None

    @staticmethod
    def _windows_oracle(case, sem, rows):
        if True:
            sem = (sem or '').lower()
            bounds = [b for b in case['bounds'] if b is not None]
            open_lo, open_hi = case['bounds'][0] is None, case['bounds'][-1] is None
            for v in set(case['data']):
                mult = case['data'].count(v)
                got = sum(r.count(v) for r in rows) // mult
                if any(r.count(v) % mult for r in rows):
                    return f'record {v} partially delivered'
                inside = (open_lo or v >= bounds[0]) and (open_hi or v <= bounds[-1])
                strictly = (open_lo or v > bounds[0]) and (open_hi or v < bounds[-1])
                if not inside and got:
                    return f'record {v} outside the bounds delivered {got}x'
                if sem == 'exactly' and got > 1:
                    return f'exactly-once delivered {v} {got}x'
                if sem == 'atmost' and got > 1:
                    return f'at-most-once delivered {v} {got}x'
                if sem == 'atleast' and inside and got == 0 and len(case['bounds']) >= 2:
                    return f'at-least-once dropped {v}'
                if inside and got != 1 and v not in bounds:
                    return f'record {v} (not a bound) delivered {got}x under {sem}'
                if sem == 'exactly' and strictly and got != 1:
                    return f'exactly-once delivered interior record {v} {got}x'
            return None

    @staticmethod
    def _prepared_oracle(case, obs):
        if True:
            given = case['lo'] is not None or case['hi'] is not None
            if not case['ordinal'] and given and obs['verdict'] != 'refused':
                return f"bounds lo={case['lo']} hi={case['hi']} given to a source without ordinal were not refused"
            if case['ordinal'] and given and (obs['verdict'] != 'filtered' or obs['lo'] != case['lo'] or obs['hi'] != case['hi']):
                return f"bounds lo={case['lo']} hi={case['hi']} not applied as given: {obs}"
            if not given and obs['verdict'] != 'unfiltered':
                return 'no bounds but the statement was changed'
            return None

    def signature(self, case, obs, problem):
        return None

    def nontrivial(self, case, obs):
        if case['t'] == 'windows':
            bounds = [b for b in case['bounds'] if b is not None]
            return len(case['bounds']) >= 3 and any(v in bounds for v in case['data'])
        if case['t'] in ('prepared', 'train'):
            return case['lo'] == 0 or case.get('hi') == 0
        return False

    def shrink(self, case):
        if case['t'] != 'windows':
            return []
        out = []
        for i in range(len(case['data'])):
            out.append({**case, 'data': case['data'][:i] + case['data'][i + 1 :]})
        if len(case['bounds']) > 2:
            out.append({**case, 'bounds': case['bounds'][1:]})
            out.append({**case, 'bounds': case['bounds'][:-1]})
        if case['kind'] != 'integer':
            out.append({**case, 'kind': 'integer'})
        return out

    def distribution(self, cases, observations):
        dist = {'by_type': {}, 'by_kind': {}, 'by_spelling': {}, 'windows_per_case': {}, 'open_ends': 0, 'data_on_bound': 0}
        for c in cases:
            dist['by_type'][c['t']] = dist['by_type'].get(c['t'], 0) + 1
            if c['t'] == 'windows':
                dist['by_kind'][c['kind']] = dist['by_kind'].get(c['kind'], 0) + 1
                dist['by_spelling'][str(c['sp'])] = dist['by_spelling'].get(str(c['sp']), 0) + 1
                w = str(len(c['bounds']) - 1)
                dist['windows_per_case'][w] = dist['windows_per_case'].get(w, 0) + 1
                dist['open_ends'] += c['bounds'][0] is None or c['bounds'][-1] is None
                dist['data_on_bound'] += any(v in c['bounds'] for v in c['data'])
        return dist

    def model_output_expr(self, case, obs):
        if case['t'] == 'windows':
            data = cl([cz(v) for v in case['data']], 'Z')
            wins = cl(
                [cp(co(a, cz, 'Z'), co(b, cz, 'Z')) for a, b in zip(case['bounds'], case['bounds'][1:])],
                'option Z * option Z',
            )
            return (
                f"match C10.resolve {co(case['sp'], cs, 'String.string')} with Some s => "
                f'map (fun w => filter (C10.in_window s (fst w) (snd w)) {data}) {wins} | None => nil end'
            )
        return None


PROP = C10()
