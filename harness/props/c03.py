"""C03 - operator composition coherence (DESIGN.md section 5, C03)."""
import json

from harness import core
from harness.core import cb, cl, cn, co, cz
from harness.symterm import cterm, name_id


def cactor(a):
    return f'(Actor {cn(name_id(a[0]))} {cz(a[1])} {cb(a[2])})'


def cspec(spec):
    tr = spec.get('train')
    trainpath = 'TNo' if not tr else ('TSame' if tr == 'same' else f'(TOwn {cactor(tr)})')
    return f"(OpSpec {co(spec.get('apply'), cactor, 'actor')} {trainpath} {co(spec.get('label'), cactor, 'actor')})"


def cexpr(tree):
    if tree[0] == 'op':
        return f'(EOp {cspec(tree[1])})'
    return f'(ESeq {cexpr(tree[1])} {cexpr(tree[2])})'


def flatten(tree):
    return [tree[1]] if tree[0] == 'op' else flatten(tree[1]) + flatten(tree[2])


def py_den(tree):
    """Oracle written from the documentation: train each stateful actor on the features/labels produced by the path
    preceding it, pass on the output of the freshly trained actor; apply the same chain with those states."""
    sl = ['app', 'slice', 0, None, [['app', 'srcT', 0, None, []]]]
    xa, xt, y, states = ['app', 'srcA', 0, None, []], ['proj', 0, sl], ['proj', 1, sl], []

    def fit(a, feats, labels):
        return ['state', a[0], a[1], None, feats, labels] if a[2] else None

    for spec in flatten(tree):
        ynew = y
        if spec.get('label'):
            lb = spec['label']
            ynew = ['app', lb[0], lb[1], fit(lb, xt, y), [y]]
        xt_in = xt
        if spec.get('apply'):
            a = spec['apply']
            sa = fit(a, xt_in, ynew)
            xa = ['app', a[0], a[1], sa, [xa]]
            if a[2]:
                states.append(sa)
            if spec.get('train') == 'same':
                xt = ['app', a[0], a[1], sa, [xt_in]]
        if spec.get('train') and spec['train'] != 'same':
            t = spec['train']
            xt = ['app', t[0], t[1], fit(t, xt_in, ynew), [xt_in]]
        y = ynew
    return xt, xa, states


class C03(core.Prop):
    ID = 'C03'
    IMPORTS = 'From FV Require Import Lib.Sym Model.C01 Model.C03 Model.C03Graph.'
    CASE_TYPE = 'C03.case'
    CHECK_FUN = 'C03Graph.check_case_graph'
    EXTRA_TARGETS = ['Model/C01.vo', 'Model/C03.vo', 'Model/C03Graph.vo', 'Lib/Corr.vo']
    RULE = (
        'random sequences of 1-6 operators (mapper, apply-only, train-only, separate apply+train actors, each '
        'with or without a label actor, label-only; stateful and stateless actors; each either decorated with the wrap '
        'decorators or written against the public composition API - Worker/fork/train/Trunk.extend of only the segments '
        'it has an actor for, with stateless taps hanging off the train/label segments it leaves alone) under a random '
        'parenthesisation, and '
        'ALL parenthesisations of sequences of up to 4 operators; built with the real wrap.Operator decorators and >>, '
        'composed with a symbolic extraction source, both segments compiled and executed; train-mode output, apply-mode '
        'output (with the states of a separately expanded composition bound positionally) and committed states compared '
        'with the denotation. Non-trivial = >= 2 operators with a stateful actor and a label actor somewhere.'
    )
    ASSUMPTIONS = [
        'actors are uninterpreted symbols; the source is the real io extraction operator with symbolic drivers and a 1:2 slicer',
        'MapReduce and the debug operators are outside the model (not generated)',
        'a public-API operator denotes what its decorated twin denotes; its taps are sinks and denote nothing',
    ]

    def _actor(self, rng, prefix, k):
        return [f'{prefix}{k}', rng.randint(0, 2), rng.random() < 0.6]

    def _spec(self, rng, k):
        style = rng.choice(['mapper', 'mapper', 'apply', 'train', 'both', 'label'])
        spec = {}
        if style == 'mapper':
            spec = {'apply': self._actor(rng, 'm', k), 'train': 'same'}
        elif style == 'apply':
            spec = {'apply': self._actor(rng, 'a', k)}
        elif style == 'train':
            spec = {'train': self._actor(rng, 't', k)}
        elif style == 'both':
            spec = {'apply': self._actor(rng, 'a', k), 'train': self._actor(rng, 't', k)}
        if style == 'label' or rng.random() < 0.3:
            spec['label'] = self._actor(rng, 'l', k)
        if rng.random() < 0.3:
            # the same operator written against the public composition API, extending only the segments it has an
            # actor for, with stateless taps on (some of) the segments it leaves alone
            spec['api'] = True
            spec['taps'] = [name for name in ('train', 'label') if rng.random() < 0.7]
        return spec

    @staticmethod
    def _trees(ops):
        if len(ops) == 1:
            return [['op', ops[0]]]
        out = []
        for i in range(1, len(ops)):
            for left in C03._trees(ops[:i]):
                for right in C03._trees(ops[i:]):
                    out.append(['seq', left, right])
        return out

    def _random_tree(self, rng, ops):
        if len(ops) == 1:
            return ['op', ops[0]]
        i = rng.randint(1, len(ops) - 1)
        return ['seq', self._random_tree(rng, ops[:i]), self._random_tree(rng, ops[i:])]

    def cases(self, rng, tier):
        n = 120 if tier == 'quick' else 500
        out = []
        # every expression ends in a stateless probe mapper so that both segments end in a worker whose input is observed
        probe = {'apply': ['probe', 0, False], 'train': 'same'}
        for _ in range(n):
            ops = [self._spec(rng, k) for k in range(rng.randint(1, 5))] + [probe]
            out.append({'expr': self._random_tree(rng, ops)})
        for _ in range(6 if tier == 'quick' else 20):
            ops = [self._spec(rng, k) for k in range(rng.randint(2, 3))] + [probe]
            out.extend({'expr': t} for t in self._trees(ops))
        return out

    def run_impl(self, cases):
        from harness.impl import c03 as impl

        return [impl.observe(c) for c in cases]

    def coq_case(self, case, obs):
        if 'error' in obs or len(obs['train']) != 1 or len(obs['apply']) != 1:
            return '(C03.CExpr 0%nat 0%nat 0%nat (EOp (OpSpec None TNo None)) (TProj 9%nat TNone) TNone nil)'
        return (f"(C03.CExpr {cn(name_id('srcA'))} {cn(name_id('srcT'))} {cn(name_id('slice'))} {cexpr(case['expr'])} "
                f"{cterm(obs['train'][0])} {cterm(obs['apply'][0])} {cl([cterm(s) for s in obs['states'] or []], 'term')})")

    def oracle(self, case, obs):
        if 'error' in obs:
            return f"composition failed: {obs['error']}"
        xt, xa, states = json.loads(json.dumps(py_den(case['expr'])))
        if obs['train'] != [xt]:
            return f"train-mode output {json.dumps(obs['train'])[:300]} differs from the documented semantics {json.dumps(xt)[:300]}"
        if obs['apply'] != [xa]:
            return f"apply-mode output {json.dumps(obs['apply'])[:300]} differs from {json.dumps(xa)[:300]}"
        if (obs['states'] or []) != states:
            return f"committed states {json.dumps(obs['states'])[:300]} differ from {json.dumps(states)[:300]}"
        return None

    def nontrivial(self, case, obs):
        ops = flatten(case['expr'])
        actors = [a for o in ops for a in (o.get('apply'), o.get('train'), o.get('label')) if a and a != 'same']
        return len(ops) >= 2 and any(a[2] for a in actors) and any(o.get('label') for o in ops)

    def shrink(self, case):
        ops = flatten(case['expr'])
        out = []
        for i in range(len(ops) - 1):
            if len(ops) > 2:
                rest = ops[:i] + ops[i + 1 :]
                tree = ['op', rest[0]]
                for o in rest[1:]:
                    tree = ['seq', tree, ['op', o]]
                out.append({'expr': tree})
        return out

    def distribution(self, cases, observations):
        dist = {'operators': {}, 'with_label': 0, 'stateful': 0, 'right_nested': 0}
        for c in cases:
            ops = flatten(c['expr'])
            k = str(len(ops))
            dist['operators'][k] = dist['operators'].get(k, 0) + 1
            dist['with_label'] += any(o.get('label') for o in ops)
            dist['stateful'] += any(a and a != 'same' and a[2] for o in ops for a in (o.get('apply'), o.get('train'), o.get('label')))
            dist['right_nested'] += c['expr'][0] == 'seq' and c['expr'][2][0] == 'seq'
        return dist


PROP = C03()
