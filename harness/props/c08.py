"""C08 - DSL objects are equal exactly when structurally identical (DESIGN.md section 5, C08)."""
import copy

from harness import core, dslgen
from harness.core import cb, cl, cn, cz

_CODES = {}


def code(atom):
    key = (type(atom).__name__, repr(atom))
    if key not in _CODES:
        _CODES[key] = len(_CODES) + 1
    return _CODES[key]


def ctree(d):
    if isinstance(d, dict):
        d = [[k, d.get(k)] for k in ('sel', 'pre', 'grp', 'post', 'ord', 'rows')]
    if isinstance(d, (list, tuple)):
        return f"(T 0%Z {cl([ctree(x) for x in d], 'tree')})"
    return f"(T {cz(code(d))} nil)"


COLLIDING = [(-1, -2), (0, 2**61 - 1), (1, 2**61), (2, 2**61 + 1)]
# literal values that are equal (and hash equal) in Python but are different DSL literals (another kind)
KINDRED = [(1, 1.0), (1, True), (0, False), (0, 0.0), (2, 2.0), (True, 1.0), (-2, -2.0)]
KIND_NAMES = ['Boolean', 'Integer', 'Float', 'Decimal', 'String', 'Date', 'Timestamp']


def same_structure(a, b):
    """Structural identity of two descriptions (1, 1.0 and True are different atoms although Python calls them equal)."""
    return core.canon(a) == core.canon(b)


def leaves(d, path=()):
    """Paths of atoms (and of None fields) that can be mutated."""
    if isinstance(d, dict):
        for k in d:
            yield from leaves(d[k], path + (k,))
    elif isinstance(d, list):
        for i, x in enumerate(d):
            if i == 0 and isinstance(x, str) and x in ('col', 'elem', 'lit', 'alias', 'bin', 'not', 'agg', 'table', 'ref', 'join', 'set', 'query'):
                continue
            yield from leaves(x, path + (i,))
    else:
        yield path, d


def get_at(d, path):
    for p in path:
        d = d[p]
    return d


def set_at(d, path, value):
    d = copy.deepcopy(d)
    cur = d
    for p in path[:-1]:
        cur = cur[p]
    cur[path[-1]] = value
    return d


class C08(core.Prop):
    ID = 'C08'
    IMPORTS = 'From FV Require Import Lib.Tree Model.C08.'
    CASE_TYPE = 'C08.case'
    CHECK_FUN = 'C08.check_case'
    EXTRA_TARGETS = ['Model/C08.vo', 'Lib/Corr.vo']
    RULE = (
        'pairs of DSL objects (features, joins, references, queries with all clauses, set operations): the same description '
        'built twice, and descriptions differing in exactly one leaf (literal value incl. pairs whose Python hashes collide: '
        '-1/-2, 0/2^61-1, 1/2^61, and literals equal in Python but of another kind: 1/1.0/True, 0/0.0/False; operator; alias; direction; column; join kind; row limit), with unrelated objects '
        'created first; observed ==, hash equality, set size, dict lookup, pickle round trip (in-process and into a fresh '
        'interpreter with another hash seed), and that cached item access returns each statement its own parts; the '
        'primitive kinds instantiated in random orders (Date before Timestamp and the reverse) in fresh interpreters and '
        'compared pairwise, also inside Array and Field and after pickling. '
        'Non-trivial = a pair differing in a hash-colliding literal, or a query pair.'
    )
    ASSUMPTIONS = [
        'the structural skeleton of an object is the description it is built from (one constructor call per description node)',
        'CPython tuple hashing is modelled only through the implication equal => hash-equal; accidental 64-bit collisions of unequal objects are possible and allowed',
    ]

    def _statement(self, rng):
        src = rng.choice([
            ['table', 'A'],
            ['join', rng.choice(['inner', 'left', 'right', 'full']), ['table', 'A'], ['table', 'B'],
             ['bin', rng.choice(dslgen.CMP), ['col', 'A', 'x'], ['col', 'B', 'x']]],
            ['join', 'inner', ['table', 'A'], ['ref', ['table', 'B'], 'bb'], ['bin', '==', ['col', 'A', 'id'], ['elem', 'bb', 'id']]],
        ])
        cols = [c for c in dslgen.columns_of(src) if c[0][0] == 'col']
        q = {'sel': [], 'pre': None, 'grp': [], 'post': None, 'ord': [], 'rows': None}
        ints = [f for f, k in cols if k == 'int']
        for _ in range(rng.randint(0, 3)):
            f = dslgen.gen_expr(rng, cols, 'int', 1)
            q['sel'].append(['alias', f, f'c{len(q["sel"])}'] if f[0] != 'col' or rng.random() < 0.3 else f)
        if rng.random() < 0.7:
            q['pre'] = dslgen.gen_pred(rng, cols, 2)
        if rng.random() < 0.3 and ints:
            q['ord'] = [[rng.choice(ints), rng.choice(['ascending', 'descending'])]]
        if rng.random() < 0.4:
            q['rows'] = [rng.choice([1, 5, 2**61, 2**61 + 1]), rng.choice([0, 0, 2**61 - 1])]
        return ['query', src, q]

    def _mutate(self, rng, desc):
        paths = list(leaves(desc))
        rng.shuffle(paths)
        for path, atom in paths:
            if isinstance(atom, bool) or atom is None:
                continue
            if isinstance(atom, int):
                pool = [b if a == atom else a for a, b in COLLIDING if atom in (a, b)] or [atom + 1, -1 if atom == -2 else -2]
                return set_at(desc, path, rng.choice(pool))
            if isinstance(atom, str):
                alt = {'+': '-', '-': '*', '*': '+', '==': '!=', '!=': '==', '<': '<=', '<=': '<', '>': '>=', '>=': '>', 'and': 'or', 'or': 'and',
                       'ascending': 'descending', 'descending': 'ascending', 'inner': 'left', 'left': 'right', 'right': 'full', 'full': 'inner',
                       'x': 'y', 'y': 'x', 'id': 'x', 'z': 'id', 's': 'id', 'b': 'x', 't': 'id', 'A': None, 'B': None}.get(atom, atom + 'q')
                if alt is None:
                    continue
                return set_at(desc, path, alt)
        return None

    def cases(self, rng, tier):
        n = 300 if tier == 'quick' else 3000
        out = []
        noise = [['bin', '+', ['col', 'A', 'x'], ['lit', -1]], ['query', ['table', 'A'], {'pre': ['bin', '>', ['col', 'A', 'x'], ['lit', -1]]}]]
        for k in range(n):
            if k % 3 == 0:
                a = dslgen.gen_expr(rng, dslgen.columns_of(['table', 'A']), rng.choice(['int', 'bool']), 2)
            else:
                a = self._statement(rng)
            if rng.random() < 0.35:
                b = copy.deepcopy(a)
            else:
                b = self._mutate(rng, a)
                if b is None:
                    continue
            out.append({'a': a, 'b': b, 'noise': noise if k % 2 else []})
        # schemas / tables / queries over the same fields in another order, with one kind changed, or identical
        for _ in range(max(12, n // 25)):
            names = rng.sample(['f1', 'f2', 'f3', 'f4'], rng.randint(2, 4))
            fields = [[nm, rng.choice(['int', 'str', 'float'])] for nm in names]
            other = copy.deepcopy(fields)
            r = rng.random()
            if r < 0.5:
                while other == fields:
                    rng.shuffle(other)
            elif r < 0.75:
                other[rng.randrange(len(other))][1] = 'bool'
            wrap = rng.choice(['schema', 'stable', 'squery'])
            out.append({'a': [wrap, fields], 'b': [wrap, other], 'noise': []})
        for k in range(4 if tier == 'quick' else 12):
            # the primitive kinds instantiated in a random order in a fresh interpreter
            order = list(KIND_NAMES)
            rng.shuffle(order)
            if k == 0:
                order = ['Date', 'Timestamp'] + [n for n in order if n not in ('Date', 'Timestamp')]
            if k == 1:
                order = ['Timestamp', 'Date'] + [n for n in order if n not in ('Date', 'Timestamp')]
            out.append({'order': order, 'hashseed': rng.randint(0, 9999), 'a': ['kinds'], 'b': ['kinds']})
        for x, y in KINDRED:
            out.append({'a': ['lit', x], 'b': ['lit', y], 'noise': []})
            out.append({'a': ['lit', y], 'b': ['lit', x], 'noise': [['lit', x]]})
            if not isinstance(x, bool) and not isinstance(y, bool):
                out.append({'a': ['bin', '*', ['col', 'A', 'x'], ['lit', x]], 'b': ['bin', '*', ['col', 'A', 'x'], ['lit', y]], 'noise': []})
                q = lambda v: ['query', ['table', 'A'], {'sel': [['alias', ['bin', '+', ['col', 'A', 'x'], ['lit', v]], 'c']], 'pre': ['bin', '<', ['col', 'A', 'y'], ['lit', v]], 'grp': [], 'post': None, 'ord': [], 'rows': None}]
                out.append({'a': q(x), 'b': q(y), 'noise': []})
        for x, y in COLLIDING:
            out.append({'a': ['lit', x], 'b': ['lit', y], 'noise': []})
            out.append({'a': ['bin', '+', ['col', 'A', 'x'], ['lit', x]], 'b': ['bin', '+', ['col', 'A', 'x'], ['lit', y]], 'noise': []})
            q = lambda v: ['query', ['table', 'A'], {'sel': [['col', 'A', 'x']], 'pre': ['bin', '>=', ['col', 'A', 'x'], ['lit', v]], 'grp': [], 'post': None, 'ord': [], 'rows': None}]
            out.append({'a': q(x), 'b': q(y), 'noise': []})
        return out

    def run_impl(self, cases):
        from harness.impl import c08 as impl

        obs = [impl.observe(c) for c in cases]
        # identity across processes (pickled here, compared in a fresh interpreter under another hash seed)
        sample = [c for c, o in zip(cases, obs) if 'error' not in o and 'order' not in c][:: max(1, len(cases) // 60)]
        verdicts = impl.cross_process(sample)
        keyed = {core.canon(c['a']): v for c, v in zip(sample, verdicts)}
        for c, o in zip(cases, obs):
            if 'error' not in o and core.canon(c['a']) in keyed:
                o['cross_process'] = keyed[core.canon(c['a'])]
        return obs

    def coq_case(self, case, obs):
        if 'order' in case:
            return None  # kinds are atoms of the skeleton: judged by the oracle
        if 'error' in obs:
            return None  # invalid description (a mutation may violate the grammar): nothing to compare
        return (f"(C08.CPair {ctree(case['a'])} {ctree(case['b'])} {cb(obs['eq'])} {cb(obs['hash_eq'])} {cn(obs['set'])} "
                f"{cb(obs['hit'])} {cb(obs['pickle_eq'])})")

    def oracle(self, case, obs):
        if 'error' in obs:
            return None if 'GrammarError' in obs['error'] or 'AttributeError' in obs['error'] or 'KeyError' in obs['error'] else f"raised {obs['error']}"
        if 'order' in case:
            names = sorted(case['order'])
            if obs['cls'] != {n: n for n in names}:
                return f"kinds instantiated in the order {case['order']} are instances of {obs['cls']}"
            for what in ('eq', 'again', 'hash', 'array', 'field', 'pickle'):
                if obs[what] != {n: [n] for n in names}:
                    bad = {n: v for n, v in obs[what].items() if v != [n]}
                    return f"kinds instantiated in the order {case['order']}: {what} relates {bad} (each kind must equal itself only)"
            if obs['keys'] != len(names):
                return f"{len(names)} kinds occupy {obs['keys']} mapping keys"
            return None
        same = same_structure(case['a'], case['b'])
        if obs['eq'] != same:
            return f"objects built from {'the same' if same else 'different'} structure compare {'equal' if obs['eq'] else 'unequal'}"
        if same and not obs['hash_eq']:
            return 'structurally identical objects hash differently'
        if obs['set'] != (1 if same else 2) or obs['hit'] != same:
            return f"as mapping keys: set size {obs['set']}, lookup hit {obs['hit']} for {'identical' if same else 'different'} objects"
        if not obs['pickle_eq']:
            return 'identity did not survive pickling'
        if obs.get('own_parts') is False:
            return "attribute access returned another statement's parts"
        if obs.get('cross_process') not in (None, True):
            return f"identity did not survive pickling into another process: {obs['cross_process']}"
        if obs.get('ne') is not None and obs['ne'] == obs['eq']:
            return '== and != agree'
        return None

    def nontrivial(self, case, obs):
        flat = core.canon(case['a']) + core.canon(case['b'])
        return 'order' in case or case['a'][0] == 'query' or any(str(v) in flat for pair in COLLIDING for v in pair if abs(v) > 2)

    def distribution(self, cases, observations):
        dist = {'identical_pairs': 0, 'one_leaf_pairs': 0, 'queries': 0, 'invalid_after_mutation': 0, 'cross_process_checked': 0}
        for c, o in zip(cases, observations):
            dist['identical_pairs'] += same_structure(c['a'], c['b'])
            dist['one_leaf_pairs'] += not same_structure(c['a'], c['b'])
            dist['queries'] += c['a'][0] == 'query'
            dist['invalid_after_mutation'] += 'error' in o
            dist['cross_process_checked'] += 'cross_process' in o
        return dist


PROP = C08()
