"""C14 - push-down hints offered to storage back-ends never lose required data (DESIGN.md section 5, C14)."""
from harness import core, dslcoq, dslgen
from harness.core import cb, cl, cn, co, cp, cz

A, B, C = ['table', 'A'], ['table', 'B'], ['table', 'C']
USABLE = {'A': ['id', 'x', 'y', 's'], 'B': ['id', 'x', 'z', 't'], 'C': ['id', 'w']}


def cols_of(tables):
    return [(['col', t, c], dict(dslgen.CATALOG[t])[c]) for t in tables for c in USABLE[t]]


def fix(f):
    """Keep string comparisons to (in)equality (the model compares strings by identity codes only)."""
    if f[0] == 'bin':
        a, b = fix(f[2]), fix(f[3])
        op = f[1]
        if op in dslgen.CMP and op not in ('==', '!=') and 'str' in (dslgen.kind_of(a), dslgen.kind_of(b)):
            op = '==' if op in ('<=', '>=') else '!='
        return ['bin', op, a, b]
    if f[0] == 'not':
        return ['not', fix(f[1])]
    return f


def walk(f):
    yield f
    if f[0] in ('alias', 'not'):
        yield from walk(f[1])
    elif f[0] == 'agg':
        yield from walk(f[2])
    elif f[0] == 'bin':
        yield from walk(f[2])
        yield from walk(f[3])


def statement_features(s, joins_only=False):
    """All features a statement mentions anywhere (optionally: of join conditions only)."""
    t = s[0]
    if t == 'table':
        return []
    if t == 'ref':
        return statement_features(s[1], joins_only)
    if t == 'join':
        return ([s[4]] if s[4] is not None else []) + statement_features(s[2], joins_only) + statement_features(s[3], joins_only)
    if t == 'set':
        return statement_features(s[2], joins_only) + statement_features(s[3], joins_only)
    q = s[2]
    own = [] if joins_only else (
        list(q.get('sel', [])) + [x for x in (q.get('pre'), q.get('post')) if x is not None] + list(q.get('grp', []))
        + [f for f, _ in q.get('ord', [])])
    return own + statement_features(s[1], joins_only)


def sources_in(s):
    yield s
    if s[0] in ('ref', 'query'):
        yield from sources_in(s[1])
    elif s[0] in ('join', 'set'):
        yield from sources_in(s[2])
        yield from sources_in(s[3])


def used_columns(stmt):
    """table -> set of its column names the statement uses anywhere (through direct references to the table too)."""
    direct = {x[2]: x[1][1] for x in sources_in(stmt) if x[0] == 'ref' and x[1][0] == 'table'}
    used = {}

    def implicit(src):
        """A query without an explicit selection projects every column of the tables (also referenced ones) it reads."""
        if src[0] == 'table':
            used.setdefault(src[1], set()).update(c for c, _ in dslgen.CATALOG[src[1]])
        elif src[0] == 'ref' and src[1][0] == 'table':
            implicit(src[1])
        elif src[0] == 'join':
            implicit(src[2])
            implicit(src[3])

    for x in sources_in(stmt):
        if x[0] == 'query' and not x[2].get('sel'):
            implicit(x[1])
    for f in statement_features(stmt):
        for g in walk(f):
            if g[0] == 'col':
                used.setdefault(g[1], set()).add(g[2])
            elif g[0] == 'elem' and g[1] in direct:
                used.setdefault(direct[g[1]], set()).add(g[2])
    return used


def outer_preserved(s, acc=None):
    """Tables on a preserved side of some outer join with a condition."""
    acc = set() if acc is None else acc
    if s[0] == 'join':
        names = lambda x: {y[1] for y in sources_in(x) if y[0] == 'table'}
        if s[4] is not None:
            if s[1] in ('left', 'full'):
                acc |= names(s[2])
            if s[1] in ('right', 'full'):
                acc |= names(s[3])
        outer_preserved(s[2], acc)
        outer_preserved(s[3], acc)
    elif s[0] in ('ref', 'query'):
        outer_preserved(s[1], acc)
    elif s[0] == 'set':
        outer_preserved(s[2], acc)
        outer_preserved(s[3], acc)
    return acc


def cvalue(v):
    if v is None:
        return 'VNull'
    if isinstance(v, bool):
        return f'(VBool {cb(v)})'
    if isinstance(v, int):
        return f'(VInt {cz(v)})'
    return f'(VStr {cn(dslcoq.nid(v))})'


class C14(core.Prop):
    ID = 'C14'
    IMPORTS = 'From FV Require Import Model.Dsl Model.DslSem Model.C14.'
    CASE_TYPE = 'C14.case'
    CHECK_FUN = 'C14.check_case'
    EXTRA_TARGETS = ['Model/C14.vo', 'Lib/Corr.vo']
    RULE = (
        'statements: queries over 1-3 tables joined (inner/left/right/full/cross) on equality, inequality, compound and '
        'random conditions, where-clauses of random and/or/not predicates over one or several tables (NULLs in the data), '
        'projections, grouping with aggregates, ordering, sub-queries and tables behind references, set operations and '
        'sub-queries over the same table and columns with different filters, disjunctions whose arms differ in (hash-colliding) '
        'literals only; x random data of 3-7 '
        'rows per table. Observed: every generate_table(table, features, predicate) call of the real alchemy parser, the '
        'rows each offered predicate admits (evaluated by sqlite), and the statement result on the full tables, on tables cut '
        'to the offered columns, and on tables cut to the admitted rows. Non-trivial = a statement with >= 2 tables and a '
        'where-clause or a non-equality join condition.'
    )
    ASSUMPTIONS = [
        'a hint-honouring back-end is emulated on the data (tables cut to the offered columns / admitted rows) and the unchanged parser output executed on sqlite',
        'the Coq model covers reference-free statements; statements with references and sub-queries are judged by the oracle only',
    ]

    # ---- generation -------------------------------------------------------------------------------------------
    def _data(self, rng, tables):
        data = {}
        for t in tables:
            rows = []
            for i in range(rng.randint(3, 7)):
                r = {'id': i}
                for c, k in dslgen.CATALOG[t]:
                    if c == 'id':
                        continue
                    if k == 'int':
                        r[c] = None if rng.random() < 0.15 else rng.randint(-2, 5)
                    elif k == 'str':
                        r[c] = None if rng.random() < 0.15 else rng.choice(['a', 'b', 'zz'])
                    elif k == 'bool':
                        r[c] = rng.random() < 0.5
                    else:
                        r[c] = None
                rows.append(r)
            data[t] = rows
        return data

    def _condition(self, rng, left, right):
        lc = [f for f, k in cols_of(left) if k == 'int']
        rc = [f for f, k in cols_of(right) if k == 'int']
        r = rng.random()
        eq = ['bin', '==', rng.choice(lc), rng.choice(rc)]
        if r < 0.4:
            return eq
        if r < 0.55:
            return ['bin', rng.choice(['<', '<=', '>', '>=', '!=']), rng.choice(lc), rng.choice(rc)]
        if r < 0.75:
            side = rng.choice([left, right])
            return ['bin', 'and', eq, fix(dslgen.gen_pred(rng, cols_of(side), 1))]
        if r < 0.85:
            return ['bin', rng.choice(['and', 'or']), ['bin', '<=', rng.choice(lc), rng.choice(rc)], fix(dslgen.gen_pred(rng, cols_of(left + right), 1))]
        return fix(dslgen.gen_pred(rng, cols_of(left + right), 2))

    def _statement(self, rng):
        n = rng.choice([1, 2, 2, 2, 2, 3, 3])
        tables = rng.sample(['A', 'B', 'C'], n)
        style = rng.random()
        refs = {}
        src = ['table', tables[0]]
        avail = cols_of([tables[0]])
        if style < 0.12 and n >= 2:
            # first table behind a direct reference
            src = ['ref', ['table', tables[0]], 'r0']
            avail = [(['elem', 'r0', c], dict(dslgen.CATALOG[tables[0]])[c]) for c in USABLE[tables[0]]]
        elif style < 0.27 and n >= 2:
            # first table behind a filtering sub-query
            inner_cols = cols_of([tables[0]])
            sel = [f for f, _ in inner_cols if rng.random() < 0.7] or [inner_cols[0][0]]
            sub = ['query', ['table', tables[0]], {'sel': sel, 'pre': fix(dslgen.gen_pred(rng, inner_cols, 1)), 'grp': [], 'post': None, 'ord': [], 'rows': None}]
            src = ['ref', sub, 'q0']
            avail = [(['elem', 'q0', f[2]], dslgen.kind_of(f)) for f in sel]
        plain = src[0] == 'table'
        joined = [tables[0]]
        for t in tables[1:]:
            kind = rng.choice(['inner'] * 6 + ['left', 'right', 'full', 'cross'])
            if kind == 'cross':
                cond = None
            elif plain:
                cond = self._condition(rng, joined, [t])
            else:
                li = [f for f, k in avail if k == 'int'] or [['lit', 1]]
                cond = ['bin', rng.choice(['==', '==', '<=']), rng.choice(li), rng.choice([f for f, k in cols_of([t]) if k == 'int'])]
            src = ['join', kind, src, ['table', t], cond]
            avail = avail + cols_of([t])
            joined.append(t)
        q = {'sel': [], 'pre': None, 'grp': [], 'post': None, 'ord': [], 'rows': None}
        if rng.random() < 0.8:
            q['pre'] = fix(dslgen.gen_pred(rng, avail, rng.choice([1, 2, 2, 3])))
        shape = rng.random()
        if shape < 0.2:
            key = rng.choice(avail)[0]
            val = rng.choice([f for f, k in avail if k == 'int'])
            q['sel'] = [key, ['alias', ['agg', rng.choice(['count', 'sum', 'min', 'max']), val], 'agg']]
            q['grp'] = [key]
            if rng.random() < 0.3:
                q['post'] = ['bin', '>=', ['agg', 'count', val], ['lit', 1]]
        elif shape < 0.85:
            q['sel'] = [f for f, _ in avail if rng.random() < 0.4] or [avail[0][0]]
            if rng.random() < 0.3:
                ints = [f for f, k in avail if k == 'int']
                q['sel'].append(['alias', ['bin', rng.choice(['+', '-', '*']), rng.choice(ints), rng.choice(ints)], 'calc'])
        if not q['grp'] and rng.random() < 0.3:
            q['ord'] = [[rng.choice(avail)[0], rng.choice(['ascending', 'descending'])]]
        return ['query', src, q], tables

    def corpus(self):
        eq = ['bin', '==', ['col', 'A', 'x'], ['col', 'B', 'x']]
        gt = lambda t, c, v: ['bin', '>', ['col', t, c], ['lit', v]]
        base = lambda src, pre: ['query', src, {'sel': [['col', 'A', 's'], ['col', 'B', 'z']], 'pre': pre, 'grp': [], 'post': None, 'ord': [], 'rows': None}]
        data = {
            'A': [{'id': i, 'x': x, 'y': y, 's': s, 'b': True} for i, (x, y, s) in enumerate([(1, 0, 'a'), (2, 3, 'b'), (None, 4, 'zz'), (3, None, 'a'), (1, 5, None)])],
            'B': [{'id': i, 'x': x, 'z': z, 't': t} for i, (x, z, t) in enumerate([(1, 0, 'a'), (2, 4, 'b'), (3, None, 'a'), (None, 2, 'zz')])],
        }
        inner = ['join', 'inner', A, B, eq]
        stmts = [
            base(inner, ['bin', 'or', gt('A', 'y', 1), gt('B', 'z', 1)]),
            base(inner, ['bin', 'and', gt('A', 'y', 1), gt('B', 'z', 1)]),
            base(inner, ['not', gt('A', 'y', 1)]),
            base(inner, ['not', ['bin', 'and', gt('A', 'y', 1), gt('B', 'z', 1)]]),
            base(inner, ['bin', 'or', ['bin', 'and', gt('A', 'y', 1), gt('B', 'z', 1)], gt('A', 'y', 3)]),
            base(inner, ['bin', 'and', ['bin', 'or', gt('A', 'y', 1), gt('B', 'z', 1)], gt('A', 'y', 3)]),
            base(inner, ['bin', 'and', gt('A', 'y', 1), gt('A', 'x', 1)]),
            base(inner, ['bin', 'or', gt('A', 'y', 1), gt('A', 'y', 1)]),
            base(['join', 'inner', A, B, ['bin', '<=', ['col', 'A', 'x'], ['col', 'B', 'x']]], gt('B', 'z', 0)),
            base(['join', 'inner', A, B, ['bin', 'and', ['bin', '<=', ['col', 'A', 'x'], ['col', 'B', 'x']], gt('A', 'y', 2)]], None),
            base(['join', 'left', A, B, ['bin', 'and', ['bin', '<=', ['col', 'A', 'x'], ['col', 'B', 'x']], gt('A', 'y', 2)]], None),
            # literals whose Python hashes collide (-1/-2) in the two arms of a disjunction over one column
            base(inner, ['bin', 'or', ['bin', '<=', ['col', 'A', 'y'], ['lit', -2]], ['bin', '<=', ['col', 'A', 'y'], ['lit', -1]]]),
            base(inner, ['bin', 'or', ['bin', '==', ['col', 'A', 'x'], ['lit', -1]], ['bin', '==', ['col', 'A', 'x'], ['lit', -2]]]),
            # the same table with the same columns in two query blocks with different filters
            ['set', 'union', ['query', A, {'sel': [['col', 'A', 'id'], ['col', 'A', 'y']], 'pre': gt('A', 'y', 3), 'grp': [], 'post': None, 'ord': [], 'rows': None}],
             ['query', A, {'sel': [['col', 'A', 'id'], ['col', 'A', 'y']], 'pre': ['bin', '<', ['col', 'A', 'y'], ['lit', 1]], 'grp': [], 'post': None, 'ord': [], 'rows': None}]],
            ['query', ['join', 'inner', ['ref', ['query', A, {'sel': [['col', 'A', 'id'], ['col', 'A', 'y']], 'pre': gt('A', 'y', 3), 'grp': [], 'post': None, 'ord': [], 'rows': None}], 'q0'],
                       A, ['bin', '<=', ['elem', 'q0', 'id'], ['col', 'A', 'id']]],
             {'sel': [['elem', 'q0', 'y'], ['col', 'A', 'y']], 'pre': None, 'grp': [], 'post': None, 'ord': [], 'rows': None}],
        ]
        data['A'] = data['A'] + [{'id': 5, 'x': -1, 'y': -1, 's': 'b', 'b': False}, {'id': 6, 'x': -2, 'y': -2, 's': 'a', 'b': True}]
        return [{'statement': s, 'tables': ['A', 'B'], 'data': data} for s in stmts]

    def cases(self, rng, tier):
        n = 300 if tier == 'quick' else 3000
        out = []
        for _ in range(n):
            stmt, tables = self._statement(rng)
            out.append({'statement': stmt, 'tables': tables, 'data': self._data(rng, tables)})
        for _ in range(max(10, n // 15)):
            t = rng.choice(['A', 'B'])
            cols = [f for f, k in cols_of([t]) if k == 'int']
            sel = rng.sample(cols, 2)
            r = rng.random()
            if r < 0.4:
                # two query blocks over the same table and columns with different filters (set operation)
                mk = lambda: ['query', ['table', t], {'sel': list(sel), 'pre': ['bin', rng.choice(['<', '>', '<=', '>=']), rng.choice(sel), ['lit', rng.randint(-1, 3)]],
                                                      'grp': [], 'post': None, 'ord': [], 'rows': None}]
                stmt = ['set', rng.choice(['union', 'union', 'intersection', 'difference']), mk(), mk()]
            elif r < 0.7:
                # a filtered sub-query over the table joined with the table itself (same columns in both blocks)
                sub = ['ref', ['query', ['table', t], {'sel': list(sel), 'pre': ['bin', rng.choice(['<', '>']), sel[0], ['lit', rng.randint(0, 3)]], 'grp': [], 'post': None,
                                                          'ord': [], 'rows': None}], 'q0']
                outer = ['table', t]
                pair = [sub, outer] if rng.random() < 0.5 else [outer, sub]
                stmt = ['query', ['join', 'inner', pair[0], pair[1], ['bin', '<=', ['elem', 'q0', sel[0][2]], sel[0]]],
                        {'sel': [['elem', 'q0', sel[1][2]], sel[1]], 'pre': None, 'grp': [], 'post': None, 'ord': [], 'rows': None}]
            else:
                # a disjunction / conjunction over one column whose arms differ in a literal only (incl. hash-colliding -1 / -2)
                a, b = rng.choice([(-1, -2), (-2, -1), (0, 1), (2, 3), (-1, 0)])
                op = rng.choice(['<=', '>=', '==', '<'])
                col = rng.choice(cols)
                pre = ['bin', rng.choice(['or', 'or', 'and']), ['bin', op, col, ['lit', a]], ['bin', op, col, ['lit', b]]]
                if rng.random() < 0.4:
                    pre = ['bin', 'or', ['not', pre[2]], ['not', pre[3]]]
                stmt = ['query', ['table', t], {'sel': list(sel), 'pre': pre, 'grp': [], 'post': None, 'ord': [], 'rows': None}]
            out.append({'statement': stmt, 'tables': [t], 'data': self._data(rng, [t])})
        return out

    def run_impl(self, cases):
        from harness.impl import c14 as impl

        return [impl.observe(c) for c in cases]

    # ---- model side --------------------------------------------------------------------------------------------
    def coq_cases(self, case, obs):
        stmt = case['statement']
        if 'error' in obs or any(c.get('unevaluable') for c in obs['calls']) or any(x[0] == 'set' for x in sources_in(stmt)) or sum(x[0] == 'query' for x in sources_in(stmt)) != 1:
            return []
        q = stmt[2]
        refs = dslcoq.refs_in(stmt)
        fl = lambda l: cl([dslcoq.cfeature(f, refs) for f in l], 'feature')
        of = lambda f: co(f, lambda c: dslcoq.cfeature(c, refs), 'feature')
        ordering = cl([cp(dslcoq.cfeature(f, refs), cb(d == 'ascending')) for f, d in q.get('ord', [])], 'feature * bool')
        out = []
        for call in obs['calls']:
            t = call['table']
            rows = cl([cl([cp(cn(dslcoq.nid(c)), cvalue(r.get(c))) for c, _ in dslgen.CATALOG[t]], 'nat * value') for r in case['data'][t]],
                      'list (nat * value)')
            cols = cl([cn(dslcoq.nid(c)) for c in call['cols']], 'nat')
            adm = co(call['admitted'], lambda bs: cl([cb(b) for b in bs], 'bool'), 'list bool')
            out.append(f"(C14.CHints {dslcoq.csource(stmt[1], refs)} {fl(q.get('sel', []))} {of(q.get('pre'))} {fl(q.get('grp', []))} "
                       f"{of(q.get('post'))} {ordering} {cn(dslcoq.TABLE_ID[t])} {cols} {rows} {adm})")
        return out

    # ---- property-text oracle -----------------------------------------------------------------------------------
    def problems(self, case, obs):
        """List of (kind, table, detail)."""
        if 'error' in obs:
            return [('error', None, obs['error'])]
        out = []
        stmt = case['statement']
        used = used_columns(stmt)
        offered = {}
        for call in obs['calls']:
            offered.setdefault(call['table'], set()).update(call['cols'])
        for call in obs['calls']:
            if call.get('unevaluable'):
                out.append(('filter', call['table'], 'the offered filter is not a predicate over the table alone: ' + call['unevaluable']))
        for t, cols in sorted(used.items()):
            missing = sorted(cols - offered.get(t, set()))
            if missing:
                out.append(('columns', t, missing))
        if 'error' in obs['ignore']:
            return out + [('error', None, 'hint-ignoring execution failed: ' + obs['ignore']['error'])]
        if obs['columns'] != obs['ignore'] and not any(k == 'columns' for k, _, _ in out):
            out.append(('columns-result', None, f"result on tables cut to the offered columns differs: {str(obs['columns'])[:120]}"))
        if obs['rows'] != obs['ignore']:
            for t in obs['culprits'] or [None]:
                out.append(('rows', t, 'result on tables cut to the rows admitted by the offered filter differs from the full result'))
        return out

    def oracle(self, case, obs):
        ps = self.problems(case, obs)
        if not ps:
            return None
        return '; '.join(f'{k} {t or ""}: {d}' for k, t, d in ps)

    def signature(self, case, obs, problem):
        stmt = case['statement']
        sigs = set()
        direct = {x[1][1]: x[2] for x in sources_in(stmt) if x[0] == 'ref' and x[1][0] == 'table'}
        eqcols = {}
        for cond in statement_features(stmt, joins_only=True):
            if cond[0] == 'bin' and cond[1] == '==' and cond[2] != cond[3]:
                for g in walk(cond):
                    if g[0] == 'col':
                        eqcols.setdefault(g[1], set()).add(g[2])
        preserved = outer_preserved(stmt)
        for kind, t, detail in self.problems(case, obs):
            if kind == 'columns' and t in direct and not any(c['cols'] for c in obs['calls'] if c['table'] == t):
                sigs.add('C14/referenced-table-offered-no-columns')
            elif kind == 'columns' and set(detail) <= eqcols.get(t, set()):
                sigs.add('C14/equality-join-condition-columns-not-offered')
            elif kind == 'filter' and self._mixed(stmt, t):
                sigs.add('C14/factor-mentions-reference-element')
            elif kind == 'rows' and t in preserved:
                sigs.add('C14/outer-join-on-factor-offered-for-preserved-side')
            else:
                return None
        return sorted(sigs)[0] if sigs else None

    @staticmethod
    def _mixed(stmt, t):
        """Some comparison of the statement mentions columns of table t and elements of a reference, and no other table."""
        for f in statement_features(stmt):
            for g in walk(f):
                if g[0] in ('bin', 'not') and (g[0] == 'not' or g[1] in dslgen.CMP):
                    leaves = [x for x in walk(g) if x[0] in ('col', 'elem')]
                    if {x[1] for x in leaves if x[0] == 'col'} == {t} and any(x[0] == 'elem' for x in leaves):
                        return True
        return False

    def nontrivial(self, case, obs):
        stmt = case['statement']
        conds = statement_features(stmt, joins_only=True)
        if stmt[0] != 'query':
            return True
        return len(case['tables']) >= 2 and (stmt[2].get('pre') is not None or any(not (c[0] == 'bin' and c[1] == '==') for c in conds))

    def shrink(self, case):
        out = []
        stmt = case['statement']
        if stmt[0] != 'query':
            for t, rows in case['data'].items():
                if len(rows) > 1:
                    out.append({**case, 'data': {**case['data'], t: rows[:-1]}})
            return out
        q = stmt[2]
        for key in ('pre', 'post'):
            if q.get(key) is not None:
                out.append({**case, 'statement': ['query', stmt[1], {**q, key: None}]})
                f = q[key]
                if f[0] == 'bin' and f[1] in ('and', 'or'):
                    out.append({**case, 'statement': ['query', stmt[1], {**q, key: f[2]}]})
                    out.append({**case, 'statement': ['query', stmt[1], {**q, key: f[3]}]})
                if f[0] == 'not':
                    out.append({**case, 'statement': ['query', stmt[1], {**q, key: f[1]}]})
        if q.get('ord'):
            out.append({**case, 'statement': ['query', stmt[1], {**q, 'ord': []}]})
        if len(q.get('sel', [])) > 1 and not q.get('grp'):
            out.append({**case, 'statement': ['query', stmt[1], {**q, 'sel': q['sel'][:-1]}]})
        for t, rows in case['data'].items():
            if len(rows) > 1:
                out.append({**case, 'data': {**case['data'], t: rows[:-1]}})
                out.append({**case, 'data': {**case['data'], t: rows[1:]}})
        return out

    def distribution(self, cases, observations):
        dist = {'tables': {}, 'join_kinds': {}, 'with_where': 0, 'with_reference': 0, 'with_subquery': 0, 'grouped': 0,
                'predicate_offered': 0, 'no_predicate_offered': 0, 'errors': 0, 'modelled_in_coq': 0}
        for c, o in zip(cases, observations):
            k = str(len(c['tables']))
            dist['tables'][k] = dist['tables'].get(k, 0) + 1
            for x in sources_in(c['statement']):
                if x[0] == 'join':
                    dist['join_kinds'][x[1]] = dist['join_kinds'].get(x[1], 0) + 1
            dist['with_where'] += c['statement'][0] == 'query' and c['statement'][2].get('pre') is not None
            dist['with_reference'] += any(x[0] == 'ref' and x[1][0] == 'table' for x in sources_in(c['statement']))
            dist['with_subquery'] += any(x[0] == 'ref' and x[1][0] == 'query' for x in sources_in(c['statement']))
            dist['grouped'] += c['statement'][0] == 'query' and bool(c['statement'][2].get('grp'))
            dist['errors'] += 'error' in o
            dist['modelled_in_coq'] += bool(self.coq_cases(c, o))
            for call in o.get('calls', []):
                dist['predicate_offered' if call['admitted'] is not None else 'no_predicate_offered'] += 1
        return dist


PROP = C14()
