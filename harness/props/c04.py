"""C04 - persisted states are bound to the actors that produced them (DESIGN.md section 5, C04)."""
import concurrent.futures
import json

from harness import core
from harness.core import cl, cn
from harness.props import c03 as c03mod
from harness.symterm import cterm, name_id


def persist_order(ops):
    """Positions of the persistent (stateful apply-path) actors: the order in which a depth-first walk of the apply
    segment meets them - at a fan-out the first subscribed branch is followed down to the tail before the next one."""
    now, deferred = [], []
    for k, spec in enumerate(ops):
        if spec.get('par'):
            now.append((k, 0))
            deferred.append([(k, b) for b in range(1, len(spec['par']))])
        elif spec.get('skip'):
            now.append((k, 'e'))                   # the estimator is subscribed to the fan first
            deferred.append([(k, 'z')])
        elif spec.get('apply') and spec['apply'][2]:
            now.append((k, 'a'))
    for rest in reversed(deferred):
        now.extend(rest)
    return now


def py_lifecycle(expr, history, shifts=None, sink=False):
    """Oracle from the property text: every stateful actor receives exactly the state its own counterpart produced in
    the training run that committed the loaded generation, combined with the hyper-parameters of the current code
    (`shifts`: action index -> how much every hyper-parameter of the code differs in that action)."""
    base = c03mod.flatten(expr)
    ops = base

    def shifted(d):
        def bump(k, v):
            if k in ('skip', 'par'):
                return [[n, h + d] for n, h in v]
            return [v[0], v[1] + d, v[2]] if k in ('apply', 'train', 'label') and isinstance(v, list) else v

        return [{k: bump(k, v) for k, v in spec.items()} for spec in base]

    sl = ['app', 'slice', 0, None, [['app', 'srcT', 0, None, []]]]
    xa0, xt0, y0 = ['app', 'srcA', 0, None, []], ['proj', 0, sl], ['proj', 1, sl]

    def order():
        return persist_order(ops)

    def train(prev):
        xa, xt, y, states = xa0, xt0, y0, {}
        keys = order()
        before = {key: (prev[i] if i < len(prev) else None) for i, key in enumerate(keys)}

        def fit(a, p, feats, labels):
            return ['state', a[0], a[1], p, feats, labels] if a[2] else None

        for k, spec in enumerate(ops):
            if spec.get('par'):
                for b, (bn, bh) in enumerate(spec['par']):
                    states[(k, b)] = fit([bn, bh, True], before[(k, b)], xt, y)
                xt = ['app', 'merge', 0, None, [['app', bn, bh, states[(k, b)], [xt]] for b, (bn, bh) in enumerate(spec['par'])]]
                continue
            if spec.get('skip'):
                (zn, zh), (en, eh) = spec['skip']
                xh = ['app', 'fan', 0, None, [xt]]
                states[(k, 'e')] = se = fit([en, eh, True], before[(k, 'e')], xh, y)
                states[(k, 'z')] = sz = fit([zn, zh, True], before[(k, 'z')], xh, y)
                xt = ['app', en, eh, se, [xh, ['app', zn, zh, sz, [xh]]]]
                continue
            ynew = y
            if spec.get('label'):
                lb = spec['label']
                ynew = ['app', lb[0], lb[1], fit(lb, None, xt, y), [y]]
            xin = xt
            if spec.get('apply'):
                a = spec['apply']
                sa = fit(a, before.get((k, 'a')), xin, ynew)
                xa = ['app', a[0], a[1], sa, [xa]]
                if a[2]:
                    states[(k, 'a')] = sa
                if spec.get('train') == 'same':
                    xt = ['app', a[0], a[1], sa, [xin]]
            if spec.get('train') and spec['train'] != 'same':
                t = spec['train']
                xt = ['app', t[0], t[1], fit(t, None, xin, ynew), [xin]]
            y = ynew
        return [states[key] for key in keys]

    def apply(loaded, x):
        got = {key: (loaded[i] if i < len(loaded) else None) for i, key in enumerate(order())}
        for k, spec in enumerate(ops):
            if spec.get('par'):
                x = ['app', 'merge', 0, None, [['app', bn, bh, got[(k, b)], [x]] for b, (bn, bh) in enumerate(spec['par'])]]
                continue
            if spec.get('skip'):
                (zn, zh), (en, eh) = spec['skip']
                xh = ['app', 'fan', 0, None, [x]]
                x = ['app', en, eh, got[(k, 'e')], [xh, ['app', zn, zh, got[(k, 'z')], [xh]]]]
                continue
            if spec.get('apply'):
                a = spec['apply']
                x = ['app', a[0], a[1], got.get((k, 'a')) if a[2] else None, [x]]
        return x

    registry, outs = [], []
    for k, action in enumerate(history):
        ops = shifted((shifts or {}).get(str(k), 0))
        if action[0] == 'train':
            registry.append(train(registry[-1] if registry else []))
            outs.append({'committed': registry[-1]})
        elif action[0] == 'apply':
            res = apply(registry[action[1]], xa0)
            outs.append({'out': [['app', 'probe', 0, None, [res]] if sink else res]})
        else:
            outs.append({'out': [['app', 'psink', (shifts or {}).get(str(k), 0), None, [['app', 'metric', 0, None, [y0, apply(registry[action[1]], xt0)]]]]]})
    return json.loads(json.dumps(outs)), json.loads(json.dumps(registry))


class C04(core.Prop):
    ID = 'C04'
    IMPORTS = 'From FV Require Import Lib.Sym Model.C01 Model.C03 Model.C03Graph Model.C04 Model.C04Seg.'
    CASE_TYPE = 'C04.case'
    CHECK_FUN = 'C04Seg.check_case_graph'
    EXTRA_TARGETS = ['Model/C04.vo', 'Model/C04Seg.vo', 'Lib/Corr.vo']
    RULE = (
        'lifecycle histories of 2-5 actions {train, train again (continuing from the last generation), apply latest / an '
        'explicit generation, production performance-tracking evaluation} over random operator expressions (>= 2 stateful '
        'apply-path actors in most, train-only stateful actors, label operators); EVERY action runs in a fresh interpreter '
        'under a different PYTHONHASHSEED, re-expands the pipeline and binds the stored states through '
        'Composition.persistent / asset.State offsets; histories in which the code\'s hyper-parameters change between training and '
        'loading (snapshot actors); a skip-connection operator trained without and applied with a sink-like tail; parallel stateful branches merging '
        'again (a public-API operator) trained, re-trained, applied and performance-tracked - the performance-tracking '
        'composition is closed by a sink block as Runner._build does; an implicitly '
        'addressed generation read through the real asset levels while another training commits between two state loads. '
        'Non-trivial = >= 2 persistent actors and >= 3 actions.'
    )
    ASSUMPTIONS = [
        'garbage-collection timing (Subscription.__del__ editing the global port registry) is runtime behaviour: it is exercised by the real runs, and only its refcount-deterministic effect is described in the known finding',
        'the registry between actions is the ordered state list of each committed generation (posix/volatile registries are covered by C05)',
        'serving through the pyfunc runner is covered by C02/C16; here the apply segment is executed by the reference interpreter',
    ]

    def corpus(self):
        probe = ['op', {'apply': ['probe', 0, False], 'train': 'same'}]
        lab = ['op', {'label': ['l0', 0, False]}]
        a = ['op', {'apply': ['a1', 0, True], 'train': 'same'}]
        b = ['op', {'apply': ['b2', 1, True], 'train': 'same'}]
        t = ['op', {'train': ['t3', 0, True]}]
        seq = lambda *xs: xs[0] if len(xs) == 1 else ['seq', xs[0], seq(*xs[1:])]
        return [
            {'t': 'pinned', 'gens': 2, 'width': 3, 'implicit': True, 'commit_before': 1},
            # a skip connection ending the pipeline: trained without anything composed after it, applied with a sink-like
            # tail (Launcher.train_call vs Launcher.apply) - the positional binding must not depend on that
            {'expr': ['seq', ['op', {'apply': ['m0', 0, False], 'train': 'same'}], ['op', {'skip': [['z1', 1], ['e2', 2]]}]],
             'history': [['train'], ['apply', 0], ['train'], ['apply', 1]], 'sink_on_apply': True},
            {'expr': ['seq', a, ['op', {'skip': [['z1', 1], ['e2', 2]]}]], 'history': [['train'], ['apply', 0]], 'sink_on_apply': True},
            # performance tracking of a pipeline with two stateful actors on parallel branches that merge again (the
            # evaluated copy must list them in the order of the original)
            {'expr': seq(['op', {'apply': ['m0', 0, False], 'train': 'same'}], ['op', {'par': [['p1', 1], ['p2', 2], ['p3', 0]]}], probe),
             'history': [['train'], ['perftrack', 0], ['apply', 0]]},
            {'expr': seq(['op', {'apply': ['m0', 0, False], 'train': 'same'}], a, ['op', {'par': [['p1', 1], ['p2', 2]]}], b, probe),
             'history': [['train'], ['train'], ['perftrack', 1], ['apply', 1], ['perftrack', 0]]},
            {'expr': seq(lab, a, b, probe), 'history': [['train'], ['perftrack', 0], ['apply', 0]]},
            {'expr': seq(a, t, b, probe), 'history': [['train'], ['train'], ['perftrack', 1], ['apply', 0]]},
            {'expr': seq(['op', {'apply': ['m0', 0, False], 'train': 'same'}], a, b, probe), 'history': [['train'], ['perftrack', 0]]},
            # the code changes between training and loading: actors that restore their own hyper-parameter from the state
            # must still run with the hyper-parameters of the current code
            {'expr': seq(['op', {'apply': ['m0', 0, False], 'train': 'same'}], a, b, probe), 'history': [['train'], ['apply', 0], ['train'], ['apply', 1]],
             'shift': {'1': 10, '2': 20, '3': 30}},
        ]

    def cases(self, rng, tier):
        n = 24 if tier == 'quick' else 240
        gen = c03mod.PROP
        probe = {'apply': ['probe', 0, False], 'train': 'same'}
        out = []
        while len(out) < n:
            ops = [gen._spec(rng, k) for k in range(rng.randint(2, 5))]
            stateful = sum(1 for o in ops if o.get('apply') and o['apply'][2])
            if stateful < 2 and rng.random() < 0.8:
                continue
            if rng.random() < 0.3:
                # parallel stateful branches merging again (public-API operator), behind an operator that touches the
                # train path (so that the listed performance-tracking finding does not apply to the branches)
                pos = rng.randint(1, len(ops))
                if not any(o.get('train') or o.get('label') for o in ops[:pos]):
                    ops.insert(0, {'apply': ['m0', 0, False], 'train': 'same'})
                    pos += 1
                ops.insert(pos, {'par': [[f'p{len(out)}x{b}', rng.randint(0, 2)] for b in range(rng.randint(2, 3))]})
            expr = gen._random_tree(rng, ops + [probe])
            history, gens = [['train']], 1
            for _ in range(rng.randint(1, 4)):
                r = rng.random()
                if r < 0.3:
                    history.append(['train'])
                    gens += 1
                elif r < 0.65:
                    history.append(['apply', rng.randrange(gens)])
                else:
                    history.append(['perftrack', rng.randrange(gens)])
            if len(out) % 8 == 7:
                # real asset levels: a generation addressed implicitly (latest) must stay the same generation for every state
                # load of the action, also when another training commits in between
                out.append({'t': 'pinned', 'gens': rng.randint(1, 3), 'width': rng.randint(2, 4), 'implicit': rng.random() < 0.8,
                            'commit_before': rng.randint(1, 3)})
                continue
            case = {'expr': expr, 'history': history}
            if len(out) % 6 == 5:
                case['shift'] = {str(k): 10 * k for k in range(1, len(history))}
            out.append(case)
        return out

    def run_impl(self, cases):
        from harness.impl import c04 as impl

        with concurrent.futures.ThreadPoolExecutor(12) as pool:
            return list(pool.map(impl.observe, cases))

    def coq_case(self, case, obs):
        if case.get('t') == 'pinned' or case.get('sink_on_apply'):
            return None
        if any(o.get('par') or o.get('skip') for o in c03mod.flatten(case['expr'])):
            return None        # operators written against the public API with parallel branches: oracle only
        if case.get('shift'):
            return None        # code-change histories are judged by the oracle only (the model fixes the hyper-parameters)
        if 'error' in obs:
            return '(C04.CHistory 0%nat 0%nat 0%nat (EOp (OpSpec None TNo None)) [DoApply 0%nat] nil nil)'
        # the model covers train / apply; a performance-tracking action is judged by the oracle only (it leaves the registry unchanged)
        actions, applied = [], []
        for action, step in zip(case['history'], obs['steps']):
            if action[0] == 'train':
                actions.append('DoTrain')
            elif action[0] == 'apply':
                actions.append(f'(DoApply {cn(action[1])})')
                if len(step['out']) != 1:
                    return '(C04.CHistory 0%nat 0%nat 0%nat (EOp (OpSpec None TNo None)) [DoApply 0%nat] nil nil)'
                applied.append(cterm(step['out'][0]))
        gens = cl([cl([cterm(s) for s in g], 'term') for g in obs['registry']], 'list term')
        return (f"(C04.CHistory {cn(name_id('srcA'))} {cn(name_id('srcT'))} {cn(name_id('slice'))} {c03mod.cexpr(case['expr'])} "
                f"{cl(actions, 'action')} {gens} {cl(applied, 'term')})")

    def oracle(self, case, obs):
        if case.get('t') == 'pinned':
            if 'error' in obs:
                return f"loading failed: {obs['error']}"
            want = [[case['gens'], i] for i in range(case['width'])]
            if obs['loads'] != want:
                return (f"states loaded by one action came from generations/positions {obs['loads']}, expected {want} (the generation "
                        f"that was latest when the action started, each actor its own position)")
            return None
        if 'error' in obs:
            return f"lifecycle failed: {obs['error']}"
        want, registry = py_lifecycle(case['expr'], case['history'], case.get('shift'), bool(case.get('sink_on_apply')))
        for k, (action, got, exp) in enumerate(zip(case['history'], obs['steps'], want)):
            if action[0] == 'train':
                same = got['committed'] == exp['committed']
                if case.get('sink_on_apply'):
                    # the order in which the states are stored is the implementation's business as long as every later action
                    # finds each actor's own state: compare the committed states as a collection here
                    canon = lambda l: sorted(json.dumps(x) for x in l)
                    same = canon(got['committed']) == canon(exp['committed'])
                if not same:
                    return f"action {k} train: committed states differ from the states the actors produced / continued from"
            elif got['out'] != exp['out']:
                kind = 'perftrack' if action[0] == 'perftrack' else 'apply'
                return (f"action {k} {kind} of generation {action[1]}: an actor did not receive its own counterpart's state "
                        f"(persistent={got.get('npersistent')} stored={got.get('nstored')}): {json.dumps(got['out'])[:400]}")
        return None

    @staticmethod
    def _perftrack_known(expr, stored, shift=0):
        """What the listed finding predicts: the stateful apply-path actors whose trainer hangs on BOTH head placeholders
        of the evaluated pipeline (no earlier operator touches the train path or the labels, no label actor of its own)
        drop out of the persistent list; the others are loaded by position from the front of the stored list."""
        def bump(k, v):
            if k in ('skip', 'par'):
                return [[n, h + shift] for n, h in v]
            return [v[0], v[1] + shift, v[2]] if k in ('apply', 'train', 'label') and isinstance(v, list) else v

        ops = [{k: bump(k, v) for k, v in spec.items()} for spec in c03mod.flatten(expr)]
        sl = ['app', 'slice', 0, None, [['app', 'srcT', 0, None, []]]]
        x, y0 = ['proj', 0, sl], ['proj', 1, sl]
        touched, lost = False, set()
        for k, spec in enumerate(ops):
            if not touched and not spec.get('label'):
                if spec.get('apply') and spec['apply'][2]:
                    lost.add((k, 'a'))
                lost.update((k, b) for b in range(len(spec.get('par') or [])))
                if spec.get('skip'):
                    pass    # its trainers hang on the operator's own fan, not on the head placeholders
            if spec.get('train') or spec.get('label') or spec.get('par') or spec.get('skip'):
                touched = True
        keys = [key for key in persist_order(ops) if key not in lost]
        got = {key: (stored[i] if i < len(stored) else None) for i, key in enumerate(keys)}
        for k, spec in enumerate(ops):
            if spec.get('par'):
                x = ['app', 'merge', 0, None, [['app', bn, bh, got.get((k, b)), [x]] for b, (bn, bh) in enumerate(spec['par'])]]
            elif spec.get('skip'):
                (zn, zh), (en, eh) = spec['skip']
                xh = ['app', 'fan', 0, None, [x]]
                x = ['app', en, eh, got.get((k, 'e')), [xh, ['app', zn, zh, got.get((k, 'z')), [xh]]]]
            elif spec.get('apply'):
                a = spec['apply']
                x = ['app', a[0], a[1], got.get((k, 'a')) if a[2] else None, [x]]
        return json.loads(json.dumps([['app', 'psink', shift, None, [['app', 'metric', 0, None, [y0, x]]]]]))

    def signature(self, case, obs, problem):
        if case.get('t') == 'pinned':
            return None
        if ' perftrack of generation' in problem:
            want, registry = py_lifecycle(case['expr'], case['history'], case.get('shift'))
            for k, (action, got, exp) in enumerate(zip(case['history'], obs['steps'], want)):
                if action[0] != 'perftrack':
                    if (got.get('committed'), got.get('out')) != (exp.get('committed'), exp.get('out')):
                        return None
                elif got['out'] != exp['out'] and got['out'] != self._perftrack_known(case['expr'], registry[action[1]], (case.get('shift') or {}).get(str(k), 0)):
                    return None
            return 'C04/perftrack-persistent-shift'
        return None

    def nontrivial(self, case, obs):
        if case.get('t') == 'pinned':
            return True
        ops = c03mod.flatten(case['expr'])
        return sum(1 for o in ops if o.get('apply') and o['apply'][2]) >= 2 and len(case['history']) >= 3

    def shrink(self, case):
        out = []
        if case.get('t') == 'pinned':
            return out
        if len(case['history']) > 2:
            out.append({**case, 'history': case['history'][:-1]})
        return out

    def distribution(self, cases, observations):
        dist = {'actions': {}, 'history_lengths': {}, 'persistent_actors': {}}
        dist['pinned_generation_cases'] = sum(c.get('t') == 'pinned' for c in cases)
        for c in cases:
            if c.get('t') == 'pinned':
                continue
            for a in c['history']:
                dist['actions'][a[0]] = dist['actions'].get(a[0], 0) + 1
            k = str(len(c['history']))
            dist['history_lengths'][k] = dist['history_lengths'].get(k, 0) + 1
            s = str(sum(1 for o in c03mod.flatten(c['expr']) if o.get('apply') and o['apply'][2]))
            dist['persistent_actors'][s] = dist['persistent_actors'].get(s, 0) + 1
        return dist


PROP = C04()
