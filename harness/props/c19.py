"""C19 - content negotiation (DESIGN.md section 5, C19)."""
from harness import core
from harness.core import cb, cl, cn, co, cp, cs, cz

KINDS = ['application/json', 'text/csv', '*/*', 'application/*', 'text/*', 'foo/bar', 'Application/JSON', 'TEXT/csv',
         'image/gif', '*/json', 'application/j?on', 'text/c*']
FORMATS = ['pandas-records', 'pandas-columns', 'pandas-index', 'pandas-split', 'pandas-table', 'pandas-values', 'foobar']
QS = [None, None, '1', '1.0', '0.5', '0.5', '0.8', '0.001', '0', '0.75', '0.9', '0.25']


def q1000(q):
    return None if q is None else int(round(float(q) * 1000))


def cenc(e):
    opts = cl([cp(cs(k), cs(v)) for k, v in sorted(e['options'].items())], 'string * string')
    return f"(Enc {cs(e['kind'])} {opts})"


def crange(r):
    params = cl([cp(cs(k), cs(v)) for k, v in r['params']], 'string * string')
    return f"(Range {cs(r['kind'])} {params} {co(q1000(r['q']), cz, 'Z')})"


def render(rng, ranges):
    """Render the media ranges as a header string with case / whitespace / quoting variation."""
    parts = []
    for r in ranges:
        params = [(k, v) for k, v in r['params']]
        items = [f'{k}={v}' if rng.random() < 0.8 else f'{k}="{v}"' for k, v in params]
        if r['q'] is not None:
            items.insert(rng.randint(0, len(items)), rng.choice(['q', 'Q']) + '=' + r['q'])
        sep = rng.choice(['; ', ';', ' ; ', ';  '])
        kind = r['kind'] if rng.random() < 0.8 else ' ' + r['kind'] + ' '
        parts.append(sep.join([kind] + items))
    return rng.choice([', ', ',', ' , ', ',   ']).join(parts).strip()


class C19(core.Prop):
    ID = 'C19'
    IMPORTS = 'From FV Require Import Lib.Str Model.C19Base Generated.C19Codecs Model.C19.'
    CASE_TYPE = 'C19.case'
    CHECK_FUN = 'C19.check_case'
    EXTRA_TARGETS = ['Model/C19.vo', 'Lib/Corr.vo']
    RULE = (
        'parse/accept: header strings rendered from 1-5 media ranges (wildcards, options, q incl. ties/missing/0, case, '
        'whitespace and quoting variation) - tokenisation by cgi.parse_header is inside the correspondence; match: '
        '(pattern, concrete) pairs from a kind pool and from all short strings over {a,b,/,*,?}; encoder/decoder: '
        'random target lists / sources; roundtrip (implementation only): encode->decode of random small tables on the '
        'codec pairs usable under pandas 3. Non-trivial = parse/accept with >= 2 ranges and a quality tie or wildcard; '
        'match with a wildcard; encoder with >= 2 targets.'
    )
    ASSUMPTIONS = [
        'header tokenisation (cgi.parse_header, comma split) is exercised by the correspondence only; quoted values containing commas/semicolons and fnmatch bracket classes are outside the generated grammar and outside the model',
        'quality values have at most 3 decimals (RFC 7231), modelled exactly as integers in 1/1000',
        'pandas JSON/CSV codecs are third-party; pandas.read_json based decoders do not work under pandas 3 in this environment (measured, reported in input_distribution.roundtrip)',
    ]

    def generated(self):
        from forml.io.layout import _codec

        def term(e):
            return cenc({'kind': e.kind, 'options': dict(e.options)})

        encs = cl([term(c.encoding) for c in _codec.ENCODERS], 'encoding')
        decs = cl([term(e) for _, e in _codec.DECODERS], 'encoding')
        text = (
            '(* GENERATED from forml.io.layout._codec ENCODERS / DECODERS of the current /repo tree - do not edit *)\n'
            'Require Import String List. Import ListNotations.\nFrom FV Require Import Model.C19Base.\n'
            f'Definition ENCODERS : list encoding := {encs}.\nDefinition DECODERS : list encoding := {decs}.\n'
        )
        return {'C19Codecs.v': text}

    def corpus(self):
        return [
            {'t': 'parse', 'ranges': [{'kind': 'image/GIF', 'params': [['a', 'x']], 'q': '0.6'}, {'kind': 'text/html', 'params': [], 'q': '1.0'}],
             'header': 'image/GIF; q=0.6; a=x, text/html; q=1.0'},
            {'t': 'accept', 'ranges': [{'kind': 'foo/bar', 'params': [], 'q': None}, {'kind': 'application/*', 'params': [], 'q': None}],
             'header': 'foo/bar, application/*'},
        ]

    def _ranges(self, rng):
        out = []
        for _ in range(rng.randint(1, 5)):
            kind = rng.choice(KINDS)
            params = []
            if rng.random() < 0.5:
                params.append([rng.choice(['format', 'Format', 'FORMAT']), rng.choice(FORMATS)])
            if rng.random() < 0.2:
                params.append([rng.choice(['charset', 'Charset']), rng.choice(['UTF-8', 'utf-8'])])
            out.append({'kind': kind, 'params': params, 'q': rng.choice(QS)})
        return out

    def _enc(self, rng, concrete=False):
        pool = ['application/json', 'text/csv', 'foo/bar', 'image/gif'] if concrete else KINDS
        opts = {}
        if rng.random() < 0.6:
            opts['format'] = rng.choice(FORMATS)
        if rng.random() < 0.15:
            opts['charset'] = 'utf-8'
        return {'kind': rng.choice(pool).lower(), 'options': opts}

    def cases(self, rng, tier):
        n = 500 if tier == 'quick' else 5000
        out = []
        for _ in range(n):
            ranges = self._ranges(rng)
            out.append({'t': rng.choice(['parse', 'accept']), 'ranges': ranges, 'header': render(rng, ranges)})
        for _ in range(n // 2):
            out.append({'t': 'match', 'pat': self._enc(rng), 'other': self._enc(rng, rng.random() < 0.8)})
            pat = ''.join(rng.choice('ab/*?') for _ in range(rng.randint(1, 5)))
            oth = ''.join(rng.choice('ab/') for _ in range(rng.randint(1, 5)))
            out.append({'t': 'match', 'pat': {'kind': pat, 'options': {}}, 'other': {'kind': oth, 'options': {}}})
        for _ in range(n // 4):
            out.append({'t': 'encoder', 'targets': [self._enc(rng) for _ in range(rng.randint(1, 4))]})
            out.append({'t': 'decoder', 'source': self._enc(rng, True)})
        for _ in range(n // 20):
            nrows = rng.randint(1, 4)
            # varying names over repeating column types: decoders must not remember the names of an earlier table
            fields = [[n, rng.choice(['i', 'i', 's'])] for n in rng.sample(['A', 'B', 'C', 'x', 'y', 'label', 'z9'], rng.randint(1, 3))]
            rows = [[rng.randint(-5, 99) if k == 'i' else rng.choice(['a', 'b', 'xy', 'z w']) for _, k in fields] for _ in range(nrows)]
            accept, declare = rng.choice(ROUNDTRIP_PAIRS)
            out.append({'t': 'roundtrip', 'fields': fields, 'rows': rows, 'accept': accept, 'declare': declare})
        return out

    def run_impl(self, cases):
        from harness.impl import c19 as impl

        return [impl.observe(c) for c in cases]

    def coq_case(self, case, obs):
        t = case['t']
        if 'error' in obs:
            return 'C19.CMatch (Enc "" nil) (Enc "" nil) false' if t != 'roundtrip' else None
        if t == 'parse':
            return f"(C19.CParse {cl([crange(r) for r in case['ranges']], 'range')} {cl([cenc(e) for e in obs['encodings']], 'encoding')})"
        if t == 'match':
            return f"(C19.CMatch {cenc(case['pat'])} {cenc(case['other'])} {cb(obs['match'])})"
        if t == 'encoder':
            return f"(C19.CEncoder {cl([cenc(e) for e in case['targets']], 'encoding')} {co(obs['index'], cn, 'nat')})"
        if t == 'decoder':
            return f"(C19.CDecoder {cenc(case['source'])} {co(obs['index'], cn, 'nat')})"
        if t == 'accept':
            return f"(C19.CAccept {cl([crange(r) for r in case['ranges']], 'range')} {co(obs['index'], cn, 'nat')})"
        return None

    # ---- oracle written from the property text ---------------------------------------------------------
    @staticmethod
    def _wild(p, s):
        if not p:
            return not s
        if p[0] == '*':
            return C19._wild(p[1:], s) or (bool(s) and C19._wild(p, s[1:]))
        return bool(s) and (p[0] == '?' or p[0] == s[0]) and C19._wild(p[1:], s[1:])

    @staticmethod
    def _matches(pat, other):
        return (
            '*' not in other['kind']
            and C19._wild(pat['kind'], other['kind'])
            and all(other['options'].get(k) == v for k, v in pat['options'].items())
        )

    @staticmethod
    def _expected_parse(ranges):
        idx = sorted(range(len(ranges)), key=lambda i: (-(1000 if ranges[i]['q'] is None else q1000(ranges[i]['q'])), i))
        return [{'kind': ranges[i]['kind'].lower(), 'options': {k.lower(): v for k, v in ranges[i]['params']}} for i in idx]

    def _tables(self):
        from forml.io.layout import _codec

        encs = [{'kind': c.encoding.kind, 'options': dict(c.encoding.options)} for c in _codec.ENCODERS]
        decs = [{'kind': e.kind, 'options': dict(e.options)} for _, e in _codec.DECODERS]
        return encs, decs

    def oracle(self, case, obs):
        t = case['t']
        if 'error' in obs:
            if t == 'roundtrip':
                return f"usable codec pair failed: {obs['error']}"
            return f"negotiation raised {obs['error']}"
        encs, decs = self._tables()
        if t == 'parse':
            if obs['encodings'] != self._expected_parse(case['ranges']):
                return f"header {case['header']!r} parsed to {obs['encodings']}, expected by-quality stable order {self._expected_parse(case['ranges'])}"
        elif t == 'match':
            if obs['match'] != self._matches(case['pat'], case['other']):
                return f"match({case['pat']}, {case['other']}) = {obs['match']}"
        elif t in ('encoder', 'accept'):
            targets = case['targets'] if t == 'encoder' else self._expected_parse(case['ranges'])
            want = None
            for p in targets:
                hit = [i for i, e in enumerate(encs) if self._matches(p, e)]
                if hit:
                    want = hit
                    break
            if want is None and obs['index'] is not None:
                return f'encoder {obs["index"]} chosen although nothing accepted is supported'
            if want is not None and obs['index'] not in want:
                return f'encoder {obs["index"]} chosen, but the first supported preference admits only {want}'
        elif t == 'decoder':
            ok = [i for i, e in enumerate(decs) if self._matches(e, case['source'])]
            if obs['index'] is None and ok:
                return f'no decoder although {ok} match the declared type'
            if obs['index'] is not None and obs['index'] not in ok:
                return f'decoder {obs["index"]} does not match the declared content type {case["source"]}'
        elif t == 'roundtrip':
            names = [n for n, _ in case['fields']]
            if obs['names'] != names or obs['rows'] != case['rows']:
                return f"round trip via {obs['produced']} changed the table: {obs['names']} {obs['rows']} != {names} {case['rows']}"
        return None

    def nontrivial(self, case, obs):
        t = case['t']
        if t in ('parse', 'accept'):
            qs = [1000 if r['q'] is None else q1000(r['q']) for r in case['ranges']]
            return len(qs) >= 2 and (len(set(qs)) < len(qs) or any('*' in r['kind'] for r in case['ranges']))
        if t == 'match':
            return '*' in case['pat']['kind'] or '?' in case['pat']['kind']
        if t == 'encoder':
            return len(case['targets']) >= 2
        return t == 'roundtrip'

    def shrink(self, case):
        out = []
        if case['t'] in ('parse', 'accept') and len(case['ranges']) > 1:
            import random

            for i in range(len(case['ranges'])):
                rs = case['ranges'][:i] + case['ranges'][i + 1 :]
                out.append({**case, 'ranges': rs, 'header': render(random.Random(0), rs)})
        if case['t'] == 'encoder' and len(case['targets']) > 1:
            for i in range(len(case['targets'])):
                out.append({**case, 'targets': case['targets'][:i] + case['targets'][i + 1 :]})
        return out

    def distribution(self, cases, observations):
        dist = {'by_type': {}, 'ranges_per_header': {}, 'ties': 0, 'unsupported': 0, 'match_true': 0, 'roundtrip': {}}
        for c, o in zip(cases, observations):
            dist['by_type'][c['t']] = dist['by_type'].get(c['t'], 0) + 1
            if c['t'] in ('parse', 'accept'):
                k = str(len(c['ranges']))
                dist['ranges_per_header'][k] = dist['ranges_per_header'].get(k, 0) + 1
                qs = [1000 if r['q'] is None else q1000(r['q']) for r in c['ranges']]
                dist['ties'] += len(set(qs)) < len(qs)
            if c['t'] in ('encoder', 'decoder', 'accept') and o.get('index') is None:
                dist['unsupported'] += 1
            if c['t'] == 'match' and o.get('match'):
                dist['match_true'] += 1
            if c['t'] == 'roundtrip':
                key = f"{c['accept']['options'].get('format', c['accept']['kind'])}->{c['declare']['options'].get('format', c['declare']['kind'])}"
                dist['roundtrip'][key] = dist['roundtrip'].get(key, 0) + 1
        return dist


# codec pairs (accepted encoding of the encoder, declared content type for the decoder) that are usable
# in this environment (pandas 3: the pandas.read_json based decoders reject literal JSON strings)
ROUNDTRIP_PAIRS = [
    ({'kind': 'text/csv', 'options': {}}, {'kind': 'text/csv', 'options': {}}),
    ({'kind': 'application/json', 'options': {'format': 'pandas-records'}}, {'kind': 'application/json', 'options': {}}),
    ({'kind': 'application/json', 'options': {'format': 'pandas-columns'}}, {'kind': 'application/json', 'options': {}}),
]

PROP = C19()
