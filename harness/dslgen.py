"""Abstract DSL statement descriptions (JSON), their construction through the real forml.io.dsl API, and generators.

feature : ['col', table, name] | ['elem', refname, name] | ['lit', value] | ['alias', feature, name]
        | ['bin', op, a, b] | ['not', a] | ['agg', fn, a] | ['win', 'rownumber', [partition feature, ...]]
source  : ['table', t] | ['ref', source, name] | ['join', kind, left, right, cond|None] | ['set', kind, left, right]
        | ['query', source, {'sel': [...], 'pre': f|None, 'grp': [...], 'post': f|None, 'ord': [[f, dir]...], 'rows': [count, offset]|None}]
"""
import operator

CATALOG = {
    'A': [('id', 'int'), ('x', 'int'), ('y', 'int'), ('s', 'str'), ('b', 'bool')],
    'B': [('id', 'int'), ('x', 'int'), ('z', 'int'), ('t', 'str')],
    'C': [('id', 'int'), ('w', 'int'), ('d', 'date'), ('ts', 'timestamp')],
}
ARITH = ['+', '-', '*']
CMP = ['==', '!=', '<', '<=', '>', '>=']
LOGIC = ['and', 'or']
AGGS = ['count', 'sum', 'min', 'max', 'avg']
_TABLES = {}


def tables():
    from forml.io import dsl

    if not _TABLES:
        kinds = {'int': dsl.Integer(), 'str': dsl.String(), 'bool': dsl.Boolean(), 'float': dsl.Float(), 'date': dsl.Date(), 'timestamp': dsl.Timestamp()}
        for name, cols in CATALOG.items():
            schema = dsl.Schema.from_fields(*(dsl.Field(kinds[k], name=c) for c, k in cols), title=name)
            _TABLES[name] = dsl.Table(schema)
    return _TABLES


def build_feature(desc, env):
    """env: {'refs': {name: reference object}}"""
    from forml.io import dsl
    from forml.io.dsl import function

    tag = desc[0]
    if tag == 'col':
        return getattr(tables()[desc[1]], desc[2])
    if tag == 'elem':
        return getattr(env['refs'][desc[1]], desc[2])
    if tag == 'lit':
        return dsl.Literal(desc[1])
    if tag == 'alias':
        return build_feature(desc[1], env).alias(desc[2])
    if tag == 'not':
        return ~build_feature(desc[1], env)
    if tag == 'agg':
        fn = {'count': function.Count, 'sum': function.Sum, 'min': function.Min, 'max': function.Max, 'avg': function.Avg}[desc[1]]
        return fn(build_feature(desc[2], env))
    if tag == 'win':
        return function.RowNumber().over([build_feature(p, env) for p in desc[2]])
    if tag == 'bin':
        a, b = build_feature(desc[2], env), build_feature(desc[3], env)
        ops = {'+': operator.add, '-': operator.sub, '*': operator.mul, '==': operator.eq, '!=': operator.ne, '<': operator.lt,
               '<=': operator.le, '>': operator.gt, '>=': operator.ge, 'and': operator.and_, 'or': operator.or_}
        return ops[desc[1]](a, b)
    raise ValueError(tag)


def build_source(desc, env=None):
    env = env if env is not None else {'refs': {}}
    tag = desc[0]
    if tag == 'table':
        return tables()[desc[1]]
    if tag == 'ref':
        ref = build_source(desc[1], env).reference(desc[2])
        env['refs'][desc[2]] = ref
        return ref
    if tag == 'join':
        _, kind, left, right, cond = desc
        lsrc, rsrc = build_source(left, env), build_source(right, env)
        if kind == 'cross':
            if cond is None:
                return lsrc.cross_join(rsrc)
            from forml.io import dsl

            return dsl.Join(lsrc, rsrc, dsl.Join.Kind.CROSS, build_feature(cond, env))
        method = getattr(lsrc, f'{kind}_join')
        return method(rsrc, build_feature(cond, env)) if cond is not None else method(rsrc, None)
    if tag == 'set':
        _, kind, left, right = desc
        return getattr(build_source(left, env), kind)(build_source(right, env))
    if tag == 'query':
        from forml.io import dsl

        src = build_source(desc[1], env)
        q = desc[2]
        ordering = [(build_feature(f, env), d) for f, d in q.get('ord', [])]
        rows = None
        if q.get('rows'):
            rows = dsl.Rows(q['rows'][0], q['rows'][1])
        return dsl.Query(
            src,
            [build_feature(f, env) for f in q.get('sel', [])],
            build_feature(q['pre'], env) if q.get('pre') is not None else None,
            [build_feature(f, env) for f in q.get('grp', [])],
            build_feature(q['post'], env) if q.get('post') is not None else None,
            ordering,
            rows,
        )
    raise ValueError(tag)


# ---- generators ---------------------------------------------------------------------------------------------------
def columns_of(src):
    """Elements available from a source description: list of (feature desc, kind)."""
    tag = src[0]
    if tag == 'table':
        return [(['col', src[1], c], k) for c, k in CATALOG[src[1]]]
    if tag == 'ref':
        return [(['elem', src[2], c[-1] if isinstance(c, list) else c], k) for c, k in named_columns(src[1])]
    if tag == 'join':
        return columns_of(src[2]) + columns_of(src[3])
    if tag == 'set':
        return columns_of(src[2])
    if tag == 'query':
        sel = src[2].get('sel')
        if not sel:
            return columns_of(src[1])
        inner = _refs_in(src[1])
        return [(f, kind_of(f, inner)) for f in sel]
    raise ValueError(tag)


def _refs_in(src, env=None):
    """Reference name -> referenced source description (references visible in the scope of a query over src)."""
    env = {} if env is None else env
    t = src[0]
    if t == 'ref':
        env[src[2]] = src[1]
    elif t in ('join', 'set'):
        _refs_in(src[2], env)
        _refs_in(src[3], env)
    return env


def named_columns(src):
    """(name, kind) of the output features of a source (only named ones)."""
    out = []
    for f, k in columns_of(src):
        name = feature_name(f)
        if name:
            out.append((name, k))
    return out


def feature_name(f):
    if f[0] in ('col', 'elem'):
        return f[2]
    if f[0] == 'alias':
        return f[2]
    return None


def kind_of(f, refs=None):
    tag = f[0]
    if tag == 'col':
        return dict(CATALOG[f[1]])[f[2]]
    if tag == 'elem':
        if refs and f[1] in refs:
            return dict(named_columns(refs[f[1]])).get(f[2], 'int')
        return f[3] if len(f) > 3 else 'int'
    if tag == 'lit':
        v = f[1]
        return 'bool' if isinstance(v, bool) else 'int' if isinstance(v, int) else 'float' if isinstance(v, float) else 'str'
    if tag == 'alias':
        return kind_of(f[1], refs)
    if tag == 'not':
        return 'bool'
    if tag == 'agg':
        return 'int' if f[1] == 'count' else kind_of(f[2], refs)
    if tag == 'win':
        return 'int'
    if tag == 'bin':
        if f[1] in ARITH:
            ka, kb = kind_of(f[2], refs), kind_of(f[3], refs)
            return 'float' if 'float' in (ka, kb) else 'int'
        return 'bool'
    raise ValueError(tag)


def gen_expr(rng, cols, kind, depth):
    """Random well-kinded expression of the given kind over the available columns."""
    pool = [f for f, k in cols if k == kind]
    if depth <= 0 or rng.random() < 0.4:
        if pool and rng.random() < 0.8:
            return rng.choice(pool)
        if kind == 'int':
            return ['lit', rng.choice([-2, -1, 0, 1, 2, 3, 5])]
        if kind == 'str':
            return ['lit', rng.choice(['a', 'b', 'zz'])]
        if kind == 'bool':
            return ['lit', rng.random() < 0.5] if not pool else rng.choice(pool)
        return ['lit', 1.5]
    if kind == 'int':
        return ['bin', rng.choice(ARITH), gen_expr(rng, cols, 'int', depth - 1), gen_expr(rng, cols, 'int', depth - 1)]
    if kind == 'bool':
        return gen_pred(rng, cols, depth)
    return gen_expr(rng, cols, kind, 0)


def gen_pred(rng, cols, depth):
    r = rng.random()
    if depth <= 0 or r < 0.5:
        kind = rng.choice(['int', 'int', 'str'])
        if not any(k == kind for _, k in cols):
            kind = 'int'
        return ['bin', rng.choice(CMP), gen_expr(rng, cols, kind, depth - 1), gen_expr(rng, cols, kind, depth - 1)]
    if r < 0.85:
        return ['bin', rng.choice(LOGIC), gen_pred(rng, cols, depth - 1), gen_pred(rng, cols, depth - 1)]
    return ['not', gen_pred(rng, cols, depth - 1)]
