"""C16 serving test project manifest."""
NAME = 'c16proj'
VERSION = '1'
PACKAGE = 'c16impl'
MODULES = {}
