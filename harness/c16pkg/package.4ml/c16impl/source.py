"""C16 serving test project source."""
from forml import project
from forml.io import layout
from forml.pipeline import wrap

from harness import c16pkg as schema

QUERY = schema.Item.select(schema.Item.name, schema.Item.delay, schema.Item.value)


@wrap.Operator.mapper
@wrap.Actor.apply
def as_tuple(data: layout.RowMajor) -> layout.RowMajor:
    """Tuple transformation operator."""
    return tuple(tuple(r) for r in data)


INSTANCE = project.Source.query(QUERY, schema.Item.label) >> as_tuple()  # pylint: disable=no-value-for-parameter
project.setup(INSTANCE)
