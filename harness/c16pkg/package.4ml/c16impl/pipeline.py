"""C16 serving test project pipeline: one stateful actor scaling the value by its state after the row's processing delay."""
import time
import typing

from forml import project
from forml.pipeline import wrap


@wrap.Actor.train
def scale(state: typing.Optional[int], features: typing.Sequence, labels: typing.Sequence[int]) -> int:
    """Train: the state is the multiplier."""
    return (state or 0) + sum(labels)


@wrap.Operator.apply
@scale.apply
def scale(state: int, rows: typing.Sequence[tuple[str, int, int]]) -> typing.Sequence[int]:
    """Apply: wait for the longest delay of the batch, then scale every value by the state."""
    delay = max((int(r[1]) for r in rows), default=0)
    if delay:
        time.sleep(delay / 1000)
    return [int(r[2]) * state for r in rows]


INSTANCE = scale()  # pylint: disable=no-value-for-parameter
project.setup(INSTANCE)
