"""C16 serving test project: schema, dummy feed and inventory (the project package itself is package.4ml)."""
import pathlib
import typing

from forml import application as appmod
from forml import io
from forml import project as prjmod
from forml.io import asset, dsl, layout
from forml.io.dsl import parser as parsmod


class Item(dsl.Schema):
    """Rows served: a tag, the processing delay the model takes for the row (ms) and the value it scales."""

    name = dsl.Field(dsl.String())
    delay = dsl.Field(dsl.Integer())
    value = dsl.Field(dsl.Integer())
    label = dsl.Field(dsl.Integer())


PACKAGE = prjmod.Package(pathlib.Path(__file__).parent / 'package.4ml')
TRAINSET = (('a', 0, 1, 1), ('b', 0, 2, 1))
TESTSET = tuple(r[:3] for r in TRAINSET)


class Feed(io.Feed[str, str]):
    """Dummy feed (serving requests carry all features, the feed is only matched, never read)."""

    class Reader(io.Feed.Reader[str, str, layout.RowMajor]):
        class Parser(parsmod.Visitor[str, str]):
            # pylint: disable=unnecessary-lambda-assignment
            resolve_feature = generate_alias = generate_expression = generate_join = generate_literal = generate_set = lambda *_: ''
            generate_reference = lambda *_: ('', '')

            def generate_element(self, origin: str, element: str) -> str:
                return f'{origin}-{element}'

            def generate_query(self, source, features, where, groupby, having, orderby, rows) -> str:
                return 'testset' if len(features) == 3 else 'trainset'

        @classmethod
        def parser(cls, sources, features) -> parsmod.Visitor:
            return cls.Parser(sources, features)  # pylint: disable=abstract-class-instantiated

        @classmethod
        def read(cls, statement: str, **kwargs: typing.Any) -> layout.RowMajor:
            return TESTSET if statement == 'testset' else TRAINSET

    @property
    def sources(self) -> typing.Mapping[dsl.Source, parsmod.Source]:
        return {Item: 'item'}


class Inventory(asset.Inventory):
    """In-memory inventory; list() can be slowed down to widen the descriptor lookup race window."""

    def __init__(self, descriptors: typing.Iterable[appmod.Descriptor], list_delay: float = 0.0):
        self._content: dict[str, appmod.Descriptor] = {d.name: d for d in descriptors}
        self._list_delay = list_delay

    def list(self) -> typing.Iterable[str]:
        if self._list_delay:
            import time

            time.sleep(self._list_delay)
        return list(self._content.keys())

    def get(self, application: str) -> appmod.Descriptor:
        return self._content[application.lower()]

    def put(self, descriptor: appmod.Descriptor.Handle) -> None:
        self._content[descriptor.descriptor.name] = descriptor.descriptor
