"""Run an implementation driver in a fresh interpreter: python -m harness.implrun <module> <in.json> <out.json>"""
import importlib
import json
import sys


def main():
    import logging
    import threading

    logging.disable(logging.CRITICAL)
    threading.excepthook = lambda args: None
    mod = importlib.import_module(sys.argv[1])
    cases = json.load(open(sys.argv[2]))
    out = [mod.observe(c) for c in cases]
    json.dump(out, open(sys.argv[3], 'w'), default=str)


if __name__ == '__main__':
    main()
