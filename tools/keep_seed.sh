#!/bin/bash
# tools/keep_seed.sh <PID> <A|B> <tests-subdir...>  - confirm a sub-agent's seeded change in its scratch worktree and keep it
pid=$1; x=$2; shift 2
wt=/tmp/seed/$pid; out=/tmp/seed/out_$pid; dst=/verif/seeded/${pid}_$x
git -C $wt checkout -q -- . || exit 2
cd $wt
PYTHONPATH=$wt timeout 1200 /venv/bin/python -W ignore $out/demo$x.py $wt > /tmp/seed/demo_clean.log 2>&1; rc_clean=$?
git -C $wt apply $out/patch$x.diff || { echo "patch failed"; exit 2; }
PYTHONPATH=$wt timeout 1200 /venv/bin/python -W ignore $out/demo$x.py $wt > /tmp/seed/demo_mut.log 2>&1; rc_mut=$?
tests_rc=skipped
if [ $# -gt 0 ]; then
  PYTHONPATH=$wt timeout 1500 /venv/bin/python -m pytest -q -p no:cacheprovider --timeout=900 "$@" > /tmp/seed/tests.log 2>&1; tests_rc=$?
  tail -1 /tmp/seed/tests.log
fi
git -C $wt checkout -q -- .
echo "$pid $x demo clean rc=$rc_clean mutated rc=$rc_mut tests rc=$tests_rc"
if [ $rc_clean -eq 0 ] && [ $rc_mut -ne 0 ]; then
  mkdir -p $dst; cp $out/patch$x.diff $dst/patch.diff; cp $out/demo$x.py $dst/demo.py; cp $out/notes$x.md $dst/notes.md
  echo "{\"rc_clean\": $rc_clean, \"rc_mutated\": $rc_mut, \"tests\": \"$*\", \"tests_rc\": \"$tests_rc\"}" > $dst/confirm.json
  echo kept
fi
