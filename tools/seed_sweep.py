#!/usr/bin/env python3
"""Apply every kept seeded change to /repo in turn, run the owning check, revert, and write seeded/<id>/meta.json + SWEEP.json.

usage: tools/seed_sweep.py [ID_X ...]     (default: all directories under /verif/seeded)
/repo must be clean and nothing else may be using it while this runs.
"""
import json
import pathlib
import re
import subprocess
import sys
import time

ROOT = pathlib.Path('/verif')
SEEDED = ROOT / 'seeded'
ALSO = {'C03_B': ['C12'], 'C03_D': ['C12'], 'C03_H': ['C12']}   # a change kept under one property that is (also) a violation of another


def sh(cmd, **kw):
    return subprocess.run(cmd, shell=True, capture_output=True, text=True, **kw)


def needs(notes: str) -> str:
    m = re.search(r'^#+\s*(What is needed[^\n]*|What it needs[^\n]*|Needed to manifest[^\n]*)\n(.*?)(?=^#+\s|\Z)', notes, re.S | re.M | re.I)
    text = m.group(2) if m else notes
    return ' '.join(text.split())[:900]


def run_check(pid):
    t0 = time.time()
    r = sh(f'cd {ROOT} && timeout 3000 ./check {pid} --tier quick')
    viol = [l for l in r.stdout.splitlines() if l.startswith('VIOLATION')]
    head = next((l for l in r.stdout.splitlines() if l.startswith(f'[{pid}]')), '')
    problem = None
    if viol:
        m = re.search(r'replay=(\S+)', viol[0])
        if m and pathlib.Path(m.group(1)).exists():
            doc = json.loads(pathlib.Path(m.group(1)).read_text())
            problem = (doc.get('problem') or '; '.join(doc.get('broken', [])) or doc.get('kind', ''))[:400]
    return {'check': pid, 'exit': r.returncode, 'violation': bool(viol), 'no_failing_input_found': any('no-failing-input-found' in v for v in viol),
            'summary': head, 'reported': problem, 'seconds': round(time.time() - t0, 1)}


def main():
    if sh('git -C /repo status --porcelain').stdout.strip():
        sys.exit('/repo is not clean')
    names = sys.argv[1:] or sorted(p.name for p in SEEDED.iterdir() if p.is_dir())
    sweep = json.loads((SEEDED / 'SWEEP.json').read_text()) if (SEEDED / 'SWEEP.json').exists() else {}
    head = sh('git -C /repo log --format=%h -1').stdout.strip()
    for name in names:
        d = SEEDED / name
        pid = name.split('_')[0]
        patch = d / 'patch_rebased.diff' if (d / 'patch_rebased.diff').exists() else d / 'patch.diff'
        ap = sh(f'git -C /repo apply {patch}')
        if ap.returncode:
            sweep[name] = {'applied': False, 'error': ap.stderr.strip()[:300]}
            print(name, 'DOES NOT APPLY')
            continue
        try:
            runs = [run_check(p) for p in [pid] + ALSO.get(name, [])]
        finally:
            sh('git -C /repo checkout -- .')
        confirm = json.loads((d / 'confirm.json').read_text()) if (d / 'confirm.json').exists() else {}
        notes = (d / 'notes.md').read_text() if (d / 'notes.md').exists() else ''
        files = re.findall(r'^\+\+\+ b/(\S+)', patch.read_text(), re.M)
        meta = {
            'property': pid,
            'variant': name.split('_')[1],
            'origin': 'written by a fresh sub-agent that was given only the property text and its own scratch worktree of /repo (nothing from /verif)',
            'files_touched': files,
            'patch': patch.name + (' (patch.diff re-based onto the current /repo HEAD, which contains later fix:/hook commits)' if patch.name != 'patch.diff' else ''),
            'what_it_needs_to_manifest': needs(notes),
            'demonstration': 'demo.py - exits 0 on the clean tree and non-zero with the patch applied',
            'confirmed_in_agent_worktree': confirm,
            'what_i_ran': [f'git -C /repo apply {patch}', *[f'cd /verif && ./check {r["check"]} --tier quick' for r in runs], 'git -C /repo checkout -- .'],
            'repo_head': head,
            'result': runs,
            'detected': any(r['violation'] for r in runs),
            'detected_by': [r['check'] for r in runs if r['violation']],
        }
        (d / 'meta.json').write_text(json.dumps(meta, indent=1))
        sweep[name] = {'applied': True, 'detected': meta['detected'], 'detected_by': meta['detected_by'],
                       'reported': next((r['reported'] for r in runs if r['violation']), None), 'seconds': sum(r['seconds'] for r in runs)}
        print(name, 'DETECTED by ' + ','.join(meta['detected_by']) if meta['detected'] else 'MISSED', flush=True)
        (SEEDED / 'SWEEP.json').write_text(json.dumps(sweep, indent=1, sort_keys=True))
    if sh('git -C /repo status --porcelain').stdout.strip():
        sys.exit('/repo left dirty')


if __name__ == '__main__':
    main()
