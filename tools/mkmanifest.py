#!/usr/bin/env python3
"""Regenerate MANIFEST.json from the table below (kept in one place so that it always validates)."""
import json
import pathlib

ROOT = pathlib.Path(__file__).resolve().parent.parent
TITLES = {json.loads(l)['id']: json.loads(l)['title'] for l in (ROOT / 'properties.jsonl').read_text().splitlines() if l.strip()}

BASE_NOTE = (
    'Trusted: Coq 8.16.1 kernel (+vm_compute), the hand-written Gallina model (tied to /repo only by the correspondence '
    'run and the regenerated constants), the Python harness, CPython and third-party libraries. No axioms declared; '
    'Print Assumptions output is audited on every run. '
)

# id -> (claimed?, technique, level text, level note, design ref)
CHECKS = {
    'C10': (
        'Rocq proof over a model with source-generated operator table + differential correspondence through sqlite',
        'Theorems (Properties/C10.v) prove for every increasing bound sequence of any length and every record: exactly-once '
        'delivers once on [b0,bn), at-most-once never twice, at-least-once never zero and twice only on interior bounds, only '
        'records on a bound can be duplicated/dropped, open ends deliver everything, non-ordinal sources refuse any bound '
        '(0 included). The bound operators and spelling table are regenerated from the live Once enum on every run, so a '
        'changed operator breaks the proofs; the model is run against Source.query -> Statement.prepare -> alchemy parser -> '
        'sqlite on 5 ordinal kinds.',
        BASE_NOTE + 'Ordinal kinds are assumed to embed monotonically into Z; SQLAlchemy/sqlite comparison semantics trusted.',
        'DESIGN.md section 5 C10',
    ),
    'C19': (
        'Rocq proof (stable sort, wildcard-match characterisation, first-match choice, finite sweep over generated codec tables) + differential correspondence',
        'Theorems (Properties/C19.v): parsed media ranges are a permutation of the header ranges sorted by descending quality and '
        'stable on ties (any length); Encoding.match is characterised exactly as wildcard match on the kind plus option inclusion; '
        'get_encoder returns the first table entry matching the first satisfiable client preference and fails iff nothing '
        'matches; get_decoder likewise; over the ENCODERS/DECODERS tables regenerated from the source on every run no entry is '
        'shadowed (vm_compute sweep, re-proved when the tables change). Correspondence: header strings rendered from token lists '
        '(so cgi.parse_header tokenisation is exercised), pattern/concrete pairs, target lists, codec round trips usable under pandas 3.',
        BASE_NOTE + 'Header tokenisation, fnmatch bracket classes and the pandas codecs are covered by the correspondence only.',
        'DESIGN.md section 5 C19',
    ),
    'C20': (
        'Rocq proof (key-wise merge law, path override over stacks, permutation invariance of bank registration) + differential correspondence',
        'Theorems (Properties/C20.v): one merge step obeys the key-by-key law at any table; for any stack of sources and any '
        'path depth the last source setting the path to a scalar wins when later sources leave it untouched, unrelated keys '
        'survive, lists are merged new-first, with the same members and duplicate-free; for every collision-free provider class '
        'set every registration order succeeds and yields the same reference map, alias and qualified name denote the same class, '
        'abstract classes are never returned, unknown references are missing, a taken reference rejects the registration. '
        'Correspondence: TOML stacks through setup.Config; provider class sets against fresh interfaces incl. lazily imported modules.',
        BASE_NOTE + 'tomli and the import machinery are exercised by the correspondence only; set-iteration order in merge is covered by repeated hash seeds in the thorough tier.',
        'DESIGN.md section 5 C20',
    ),
    'C17': (
        'Rocq proof over an exact-rational selector (invariants by induction over request histories, refuted full claim by vm_compute witness) + bit-exact PrimFloat twin for the correspondence',
        'Theorems (Properties/C17.v) for every valid variant set (positive integer/fractional/omitted targets) and every request '
        'count: selection never fails; no variant is ever a whole request ahead of its normalised share; with two variants the '
        'deviation is below one request; the claimed one-request bound is REFUTED for >= 3 variants (witness 7,10,11,12,7,9 @ 47, '
        'known finding) and replaced by the proved k-1 lower bound; Latest picks the newest generation of the highest release '
        'having one, or of the configured release. PARTIAL: the theorems are over exact rationals while the code computes in '
        'binary64 (incl. CPython 3.12 compensated sum, modelled); the float twin must match the real ABTest bit-exactly on every '
        'generated history, the rational model on all histories without a (near-)tie; refresher thread timing is runtime.',
        BASE_NOTE + 'Coq primitive floats (kernel primitives) are used by the float twin only; the rational/float gap is measured per run.',
        'DESIGN.md section 5 C17',
    ),
    'C15': (
        'Rocq proof (loop invariants of the name-matching loop, soundness/completeness of the indices, cast specification, matrix cell laws) + differential correspondence on Dense and Frame',
        'Theorems (Properties/C15.v) for all query/entry name lists: accepted indices select exactly the query columns in query '
        'order, the identical shortcut only for identical sequences, an entry lacking a required column is refused and one '
        'carrying all of them (any permutation/superset) never is; each delivered column is the same-named entry column, cast to '
        'the declared kind unless it already has it; take_rows/take_columns/to_columns obey cell-wise matrix semantics for any '
        'index list. Correspondence: Reader.__call__ with Dense/Frame entries (permutations, extras anywhere, missing, casts) '
        'and chained tabular operations incl. relabelled frames.',
        BASE_NOTE + 'Values restricted to ints, canonical decimal strings, bools; numpy/pandas indexing is third-party.',
        'DESIGN.md section 5 C15',
    ),
    'C18': (
        'Rocq proof (codec round trip, total-order laws of the PEP 440 key comparison, generic sorted-dedup listing lemmas) + differential correspondence',
        'Theorems (Properties/C18.v): every constructible tag reads back from its document unchanged; generation keys are the '
        'naturals >= 1 with successor, a new generation is numbered above every existing one; the release key comparison is a '
        'strict total order extending the zero-trimmed release-tuple order; listings (generic over any total order, instantiated '
        'for generation and release keys) are strictly ascending, contain exactly the distinct inputs and their last element is '
        'the maximum. Correspondence: byte-level Tag round trips on 7 ordinal kinds, Generation.Key/Release.Key validity and '
        'order on generated PEP 440 strings, Level.Listing, Manifest write/read; packages written as directory or zip with default / '
        'relative dotted / absolute module maps, installed and their components loaded (oracle only, no model of the import machinery).',
        BASE_NOTE + 'toml, packaging (version parsing), import machinery and zipfile are third-party/runtime: correspondence only; local version segments not modelled.',
        'DESIGN.md section 5 C18',
    ),
    'C11': (
        'Rocq proof over an executable state machine of the construction API (invariants of the direct fragment, vm_compute refutations) + step-wise differential correspondence',
        'PARTIAL. Model/C11.v mirrors Subscription.__new__, publish/republish, Node/Worker/Future._publish, placeholder registration '
        'and collapse, Worker.train, including the state a failing call leaves behind; it is compared with the real API after every '
        'call of random legal/illegal sequences and of all permutations of placeholder wirings. Proved (direct worker-to-worker '
        'wiring, any state, any call): a refused subscription leaves the graph unchanged; no node ever feeds itself; after ANY '
        'sequence of subscribe / train calls (refused ones included) every input port is fed by at most one output and by one '
        'exactly when it is registered. Refuted with witnesses (known findings): single publisher per port through placeholders; '
        'failing train/collapse leaving partial state. The other invariants (apply-xor-train, one trained member per group, '
        'trained workers publish nothing, only existing output ports published) are proved for direct wiring after any call '
        'sequence as well (C11_topology_direct_partial) and enforced by the property oracle on every generated sequence, '
        'placeholders included.',
        BASE_NOTE + 'Of the destructor-driven registry edits only the deterministic one is modelled (a duplicate Subscription dropped by an output set unregisters its port); garbage-collector timing and placeholder cycles are outside the model.',
        'DESIGN.md section 5 C11',
    ),
    'C01': (
        'Rocq proof: compiler correctness of an executable model of flow.compile for every well-formed segment, accessor and '
        'visiting order (table invariant over any order of Table.add + a symbol-table validator proved sound) + symbol-for-symbol '
        'correspondence of the model with the real compiler output and translation validation of that output on every generated segment',
        'Model/C01.v is the reference denotation of a segment over free terms (every actor an uninterpreted symbol): argument '
        'order, per-port getters, state of the sibling trained in the same run, previous states loaded and new states committed '
        'per persistent group at its list position. Model/C01Compile.v holds (a) the instruction semantics (Functor/Apply/Train/'
        'SetState preset, Loader, Dumper, Getter, Committer) as an evaluator of position-based symbol tables, (b) a validator '
        '`validate`/`valid_commit` proved sound for EVERY graph, accessor and table (C01_table_sound, C01_port_value, '
        'C01_commit_sound), (c) an executable model of the compiler algorithm itself (Table.add, Linkage.insert/update/prepend/'
        'leaves, Index.set/reset, __iter__ with groupby alias merge and stub-getter pruning, every assertion as an error). '
        'PROVED (C01_compile_correct, C01_compile_dataflow; 3 000 lines: Proofs/C01Prim, C01Blocks, C01Inv, C01Step, C01Emit, '
        'C01Canon, C01Main): for every asset accessor, every well-formed segment (wfb: ports fed by existing outputs of earlier '
        'non-trained nodes; trained members stateful, unique per group and listed before the applied members; accessor groups '
        'distinct and either all or none trained in the segment) and EVERY visiting order (any permutation of the nodes), no '
        'assertion of Table.add / Linkage.insert / Index.set / Linkage.leaves fires, __iter__ resolves every argument, the loader '
        're-keying, dumper and committer wiring are right, and the emitted table evaluates at every node to the value of direct '
        'graph evaluation and at the committer to the states trained in this run at the list positions. Also proved about the '
        'denotation: each task evaluated once and functionally, state binding, trained state, commit positions. Tie to the code: on '
        'every generated segment (multi-output, unused ports, fork groups, arbitrary train/label sources, every connection order, '
        'any persistent subset/order) the real flow.compile output must equal the model output symbol for symbol under the '
        'recorded traversal order, be accepted by the validator, evaluate in Coq to the sink term the independent Python '
        'interpreter obtained, match the denotation (sink, commit list, loads, one call per task), and the segment must satisfy '
        'wfb; the recorded order of Table.add calls must equal, element for element, the Gallina model of Traversal.each '
        '(Model/C01Each.v: depth-first over ordered subscription lists, trained subscribers only at the tail), which is proved '
        'duplicate-free, in range and exhaustive on connected segments (C01_traversal), so that C01_compile_segment needs no '
        'hypothesis about the visiting order: a well-formed connected segment compiles correctly in the traversal\'s own order. '
        'PARTIAL only in what is outside the models: the truthiness test of Preset.reduce and the runners executing the table (C02).',
        BASE_NOTE + 'The theorems are about the Gallina compiler model; its identity with forml/flow/_code/compiler.py is checked by '
        'symbol-for-symbol comparison on the generated segments, not proved.',
        'DESIGN.md section 5 C01 and section 10.9',
    ),
    'C02': (
        'Rocq model of the reference table semantics and of the pyfunc transcoder (refutations by vm_compute, fuel-irrelevance proof) + differential execution on all backends',
        'PARTIAL. Model/C02.v holds the reference semantics of a symbol table and a faithful executable model of '
        'pyfunc.Expression (_order, _build, provider deques, Push/Pop evaluation over two calls). Proved: the reference value of an '
        'instruction is a function of the table alone. Refuted with witnesses (known findings): pyfunc = reference fails for fan-out '
        'at the head (construction crash) and for a shorter branch evaluated first (pop before push). Every generated table is run '
        'on the reference interpreter, on the real pyfunc expression twice (the model must predict value-or-crash exactly) and on '
        'dask synchronous/threads (+processes in the thorough tier), incl. sibling actors whose builders differ only in a lossy-repr '
        'value; any disagreement between backends other than the two listed findings is a violation.',
        BASE_NOTE + 'dask scheduling, tokenisation and pickling are runtime behaviour: correspondence only.',
        'DESIGN.md section 5 C02',
    ),
    'C03': (
        'Rocq proof over the denotation of operator expressions (scoping irrelevance, per-operator coherence, sequencing), of the '
        'task graph they denote and of its compilation (end to end with the C01 compiler theorem) + differential execution of the real composition',
        'PARTIAL. Model/C03.v is the denotation of expressions over the decorated operators (mapper / apply / train / label in '
        'every combination, stateful or not) in terms of the three coherent segments. Proved: any nesting or explicit scoping of '
        'the same operator sequence denotes the same chains; each operator applies its actor with exactly the state fitted on the '
        'train features and labels produced by the preceding path (labels after its own label actor) and passes the freshly '
        'fitted actor output downstream; evaluation is sequential and exactly the stateful apply-path actors persist a state. '
        'Model/C03Graph.v is the task graph an expression denotes (worker groups with trained fork and applied members on the '
        'label / apply / train paths); proved: its direct evaluation (C01 geval) at the three tails equals the expression '
        'denotation (C03_graph_denotation), it is a well-formed compiler input, and - with C01_compile_correct - for every '
        'expression and every visiting order the compiled symbol table evaluates at the apply and train tails to the '
        'expression denotation (C03_pipeline_compiles); the states it trains for the stateful apply-path groups are in pipeline '
        'order the persisted list of the denotation (C03_graph_persisted), and compiled with an accessor persisting those groups the '
        'table\'s committer evaluates to exactly that list for every expression and visiting order (C03_pipeline_commits); the apply segment alone (build_a), evaluated or compiled '
        'under any visiting order with the accessor holding that committed list bound by position, delivers the apply output of '
        'the denotation (C03_apply_reloads, C03_apply_compiles). Correspondence (C03Graph.check_case_graph runs the denotation AND '
        'both executable graph models against the real observations): random expressions and all parenthesisations of short '
        'ones, built with the real wrap decorators or written against the public composition API (partial Trunk.extend, taps), '
        'composed, compiled and executed in train mode and (in a separate expansion) apply mode.',
        BASE_NOTE + 'MapReduce and the debug operators are not modelled; the graph model is tied to the real graph-building code through the executed behaviour (real execution = den = evaluation of the graph model), not by comparing graphs.',
        'DESIGN.md section 5 C03',
    ),
    'C04': (
        'Rocq proof of positional binding over a lifecycle model + histories whose every action runs in a fresh interpreter',
        'PARTIAL. Model/C04.v: training runs (continuing from a previous generation), a registry of committed generations and '
        'later actions on freshly expanded pipelines bound by position. Proved for every operator sequence and previous '
        'generation: feeding the committed list back by position gives every stateful apply-path actor exactly the state its '
        'own counterpart produced; re-training continues from the state at the actor\'s own position; train-only/label actors '
        'are never persistent; and (C04_apply_segment, with the graph model of C03 and the graph semantics of C01) the apply-segment '
        'graph evaluated with the accessor binding ANY stored list to the persistent groups by position computes exactly '
        'apply_run, so positional binding is the loader semantics of the compiler model; and the training graph evaluated with a '
        'previous generation in the accessor delivers at its tails, and trains for the persistent groups, what train_run prev '
        'denotes, and the compiled committer evaluates to the list that run persists, for every visiting order (C04_train_graph_generation, C04_train_graph_persisted, C04_retrain_commits). Correspondence (C04Seg.check_case_graph replays each '
        'training and each later action on the executable graph models too, with the observed generations in the accessor): histories of train / re-train / apply (latest or explicit generation) / '
        'performance-tracking evaluation through the real Composition.persistent and asset.State machinery, each action in a '
        'fresh process under another hash seed; histories in which the hyper-parameters of the code change between training and '
        'loading, with actors that restore their own hyper-parameter from the state (judged by the oracle: the current code\'s '
        'hyper-parameters must win), a skip-connection pipeline trained without and applied with a sink-like tail, and an implicitly addressed generation read through the real asset levels while another training commits between two state loads (all three oracle only). The performance-tracking mis-binding of the unchanged code is a listed finding '
        'whose exact predicted outcome is matched; anything else is a violation.',
        BASE_NOTE + 'Garbage-collection driven registry edits are runtime behaviour; serving-side binding is exercised under C16.',
        'DESIGN.md section 5 C04',
    ),
    'C12': (
        'Rocq proof of the fold wiring for any fold count over the operator denotation + differential execution of the real evaluation and stacking graphs',
        'Theorems (Properties/C12.v) for every pipeline, every number of folds and any (symbolic) splitter: every fold contributes '
        'exactly one scored pair, in order, pairing the true outcomes of its held-out part with the prediction of an instance '
        'trained only on its training part; features and labels are split by one fitted splitter state and all parts are '
        'distinct splitter outputs; stacked train features are per base model the fold-ordered held-out predictions, stacked '
        'labels the held-out label parts in the same order, and in apply mode all fold instances of each base are combined on the '
        'same input. The real TrainTestScore/CrossVal/HoldOut/Function.score and FullStack graphs (with scopes inside the '
        'ensemble composition) are compiled, executed and compared with the model. The model is over the decorated-operator '
        'denotation of C03; the graph-building code itself is tied by execution.',
        BASE_NOTE + 'Default pandas splitters/stackers/reducers are not exercised.',
        'DESIGN.md section 5 C12',
    ),
    'C08': (
        'Rocq proof of structural equality on the skeleton of DSL objects (rose-tree reflection) + pairwise differential correspondence incl. cross-process pickling',
        'Theorems (Properties/C08.v) for objects of any size and nesting: the implementation equality (after the structural-equality '
        'fix) is exactly structural identity, equal objects hash equal, set/dict lookups never confuse different objects and always '
        'find identical ones, identity survives the pickle protocol; the ALGORITHM of `identical` (same class, equal hashes, '
        'element-wise equal content, recursively) is structural identity for EVERY hash function (C08_algorithm), whereas equality by '
        'hash alone - the pre-fix code - is refuted with hash(-1) = hash(-2) (C08_hash_only_refuted). Correspondence: pairs built '
        'twice / differing in exactly one leaf, including literals whose Python hashes collide (-1/-2, 0/2^61-1, 1/2^61) and literals '
        'that Python calls equal but that have another kind (1/1.0/True, 0/0.0/False), with unrelated objects created first: ==, '
        'hash, set size, dict lookup, pickling in-process and into a fresh interpreter with another hash seed, cached attribute '
        'access returning each statement its own parts; the primitive kind singletons instantiated in random orders in fresh '
        'interpreters and compared pairwise (also inside Array / Field and after pickling; oracle only).',
        BASE_NOTE + 'Schemas are compared through the objects embedding them; accidental 64-bit hash collisions of unequal objects are allowed.',
        'DESIGN.md section 5 C08',
    ),
    'C09': (
        'Rocq proof over the matcher / parser-resolution / priority-selection model (induction over statements, refutation witness) + differential correspondence with real importers',
        'PARTIAL. Proved for every statement and pool: the selected feed matches and every feed ranked before it does not, '
        'missing-source exactly when no feed matches; a feed passed over by the matcher could not have parsed the statement; '
        'feeds advertising tables only are selected exactly when their parser resolves the statement. Refuted (known finding): '
        'matcher = parser resolution in general - a feed advertising only a join/reference/sub-query is selected and then '
        'unparseable. Correspondence: pools of 1-3 feeds with configured priorities and arbitrary advertised source subsets, '
        'single statements and sequences of statements on one long-lived importer, followed by the selected feed\'s real parser. '
        'The walking order is proved to be a permutation of the pool, descending by priority and stable on ties.',
        BASE_NOTE + 'Provider/config plumbing for priorities is exercised by the correspondence only.',
        'DESIGN.md section 5 C09',
    ),
    'C14': (
        'Rocq proof over the factorisation / hint-registration model (induction over predicates with SQL three-valued row semantics, refutation witnesses) + differential correspondence with the real alchemy parser and hint-honouring execution on sqlite',
        'PARTIAL. Proved for every predicate, table and row environment: each factor offered for a table is a necessary '
        'condition of the predicate it was derived from (and/or/not merging, NULL semantics) and mentions that table only; the '
        'offered filter (disjunction of the factors of the where-clause and of the registered join conditions) admits the '
        'table\'s row of every row combination satisfying those clauses - the contributing rows of inner-join statements; the '
        'offered column set covers every column used by projection, filters, grouping and ordering. Refuted on the faithful '
        'model (known findings): columns of an equality ON-condition are not offered; ON-factors of an outer join are offered '
        'for the preserved side. Statements with references and sub-queries are outside the model and judged by the '
        'hint-honouring execution only (two more known findings there). Aggregation is not evaluated by the model.',
        BASE_NOTE + 'sqlite evaluates the offered predicates and the statements; a hint-honouring back-end is emulated by cutting the table data to the offered columns / admitted rows.',
        'DESIGN.md section 5 C14',
    ),
    'C06': (
        'Rocq proof over (a) the push-down automaton model of the DSL Visitor vs the direct translation, (b) the denotational semantics of statements with the join / operator tables the alchemy parser emits (regenerated from the source on every run), (c) the result-cache state machine; + three-level differential correspondence (recorded Visitor terms, sqlite and duckdb rows, read histories through the real alchemy feed)',
        'PARTIAL. Proved for every statement: the Visitor automaton assembles exactly the direct translation (operand order, clean '
        'stack, contexts restored) and cannot fail when every column is in scope; the emitted join equals the join kind list-for-list '
        'for inner/left/full (hence implementation model = denotation on every statement built from them), up to row order for right, '
        'and for cross only with non-empty operands; the emitted operator/aggregate/set/direction tables are the identity; cached reads '
        'are right while nothing changes. Refuted (known findings): cross join with an empty operand, history independence of the '
        'cached reader (stale after mutation / restart, shared across connections). Not a theorem: that SQLAlchemy + sqlite/duckdb '
        'evaluate the emitted SQL as the denotation says - that is the differential part (both engines, an independent Python '
        'evaluator and the Coq denotation must agree on every generated statement x content). Read histories through inline-backed '
        'monolite feeds (the process-global lazy backend) are judged by the oracle only (known finding); floats, division, '
        'avg, window functions and NULL ordering keys are outside the model.',
        BASE_NOTE + 'SQLAlchemy 2.0, sqlite 3.40, duckdb 1.5, pandas (reader level) execute the parser output.',
        'DESIGN.md section 5 C06',
    ),
    'C16': (
        'Rocq proof over a labelled transition system of the serving core (invariant by induction over arbitrary schedules, progress measure, descriptor-cache interleavings) + replay of the real engine\'s instrumented scheduling traces as runs of the model',
        'PARTIAL (model scope). Proved for every batch and EVERY schedule of the agents (event loop, extract threads, any number '
        'of workers per executor, executor result threads, respond pool): a caller only ever receives the outcome of its own payload '
        'on the instance its application selects or its own platform error (never crossed); a given answer is never changed or '
        'repeated (never duplicated; an unsupported accept list fails in the respond step, alone); while a request is unanswered some step is enabled and every step strictly decreases a measure '
        '<= 8N, so every schedule that keeps moving answers every caller (never lost); a failing request only changes its own phase '
        '(fails alone); the descriptor cache never refuses an existing application under any interleaving of any number of threads '
        '(the pre-fix code did - witness kept; fixed in /repo). Tied to the code by running real batches through the real Engine '
        '(real processes and queues) and replaying the FORML_VERIF-guarded scheduling trace step by step in the model. Outside the '
        'model: process start-up/shutdown, queue time-outs, a worker dying on a non-forml exception (stops its executor), the pyfunc runner interior.',
        BASE_NOTE + 'multiprocessing (spawn + fork, manager queues), asyncio and CLOCK_MONOTONIC ordering of trace events across processes; the FORML_VERIF trace hook in prediction.py.',
        'DESIGN.md section 5 C16',
    ),
    'C07': (
        'Rocq proof characterising the mirrored construction-time validation rule by rule + differential correspondence on conforming statements and single-rule mutants',
        'Theorems (Properties/C07.v) for every statement: a query / join / set is constructible iff the documented rules hold '
        '(elements of the queried source only; boolean filters and join conditions; no aggregates in where, grouping or join '
        'conditions; every selected feature outside the grouping contains an aggregate; cross join without and other joins with '
        'a condition; equal operand schemas for sets) and an expression iff its operand kinds are compatible. The verdict and '
        'the schema (names/kinds in order, dictionary semantics for repeated names) of the model are compared with the real '
        'constructors on conforming statements and on mutants violating exactly one rule, plus an independent oracle.',
        BASE_NOTE + 'Window features (RowNumber over a partition, placed in every clause) are generated and judged by the independent oracle only - they are outside the Coq grammar; Decimal and compound kinds are outside the generated grammar and the model.',
        'DESIGN.md section 5 C07',
    ),
    'C13': (
        'Rocq proof over an abstract actor state machine covering the state codecs of all flavours + differential correspondence on real actors',
        'Theorems (Properties/C13.v) for every flavour, training history, state and parameter set: a twin rebuilt from the builder '
        'and given the exported state behaves identically (own set_state or compiled preset); builder hyper-parameters take '
        'precedence over those inside a state under the preset (and under the default codecs); the empty state changes nothing, an '
        'untrained decorated actor exports it and a trained one never does (falsy learned states included); incremental training '
        'continues identically after re-import. Correspondence: random operation sequences (training, apply, parameter updates, '
        'cloudpickle round trips, transfers with equal/different parameters via set_state and via the real SetState functor) on '
        'native (default and custom codec), function-decorated (also with a mutable state updated in place) and class-wrapped (method-name '
        'and callable mapping) actors; one functor object executed repeatedly (also with an empty state) and an exported state loaded '
        'into two actors of which the first trains on (both oracle only).',
        BASE_NOTE + 'User functions are fixed integer arithmetic; cloudpickle is trusted.',
        'DESIGN.md section 5 C13',
    ),
    'C05': (
        'Rocq proof of crash consistency over a primitive-level model of the release directory (every crash point incl. byte prefixes of writes) + fault enumeration against the real posix registry',
        'Theorems (Properties/C05.v) for every directory state, generation number, state list and tag: whenever the process dies '
        'during a commit or a publish - after any number of primitives, inside any write - a fresh reader sees the previous content '
        'or the complete new item; a commit never touches another generation; numbering is one above every listed generation and a '
        'release is accepted only above every existing version. Correspondence/fault enumeration: histories through the real asset '
        'levels and posix registry; for every commit and publish of the crash-histories the operation is replayed from a snapshot '
        'with a forked child killed before each file-system primitive and in the middle of each write, then read by a fresh reader; '
        'histories with more than nine generations and releases crossing 0.9 -> 0.10; histories driven through ONE long-lived writer '
        'process (one Directory object, its caches) or two of them holding their release handles, with refused commits (an unstaged state) and their retries, read by another process; closing a written file is a crash point of its own.',
        BASE_NOTE + 'Process-death semantics only (primitives atomic and durable in program order); volatile/mlflow registries not exercised.',
        'DESIGN.md section 5 C05',
    ),
}
NOT_YET = 'model and theorems not built yet in this round (planned, see DESIGN.md section 5/9)'


def main():
    checks = []
    for pid, (tech, text, note, ref) in sorted(CHECKS.items()):
        checks.append(
            {
                'property_id': pid,
                'quick_cmd': f'./check {pid} --tier quick',
                'thorough_cmd': f'./check {pid} --tier thorough',
                'evidence_file': f'/verif/evidence/{pid}.json',
                'replay_cmd_template': f'./check {pid} --replay {{path}}',
                'engine': 'rocq-proof+correspondence',
                'level_claimed': {'category': 'proof', 'text': text, 'design_ref': ref},
                'level_note': note,
                'technique': tech,
            }
        )
    doc = {
        'version': 1,
        'setup_cmd': 'cd /verif && ./check --setup',
        'hooks': {
            'guard': 'FORML_VERIF',
            'enable': 'one hook in /repo (forml/runtime/_service/prediction.py _verif_trace, used by C16 only): with FORML_VERIF=1 and FORML_VERIF_TRACE=<file> the prediction executor appends its scheduling events (submit / take / finish / deliver) to the file; ./check exports both for the C16 driver subprocesses; nothing is rebuilt (pure Python). Every other observation is made through public constructors, subclassing or harness-side stubs',
            'baseline_off_cmd': 'cd /repo && /venv/bin/python -m pytest -ra -q -p no:cacheprovider --timeout=900 --continue-on-collection-errors',
            'source_commits': ['596f6a2'],  # fix: commits are listed in known_findings.json
            'add_only': True,
        },
        'engines': [
            {
                'name': 'rocq-proof+correspondence',
                'path': '/verif/check',
                'serves_properties': sorted(CHECKS),
                'kind_free_text': 'Coq 8.16.1 theorems over hand-written executable Gallina models (coq/), constants regenerated from /repo, '
                'differential correspondence of model (vm_compute in coqc) vs real forml code (harness/)',
            }
        ],
        'checks': checks,
        'not_applicable': [{'property_id': pid, 'reason': NOT_YET} for pid in sorted(TITLES) if pid not in CHECKS],
        'notes': (
            'DESIGN.md section 10 describes what exists (sections 1-9 are the original plan). Every check: (1) regenerates the '
            'source-derived constants, (2) rebuilds coq/Properties/<id>.vo with a full coqc build and audits Print Assumptions, '
            '(3) drives the real forml code in /repo on generated cases, judges the observations with an oracle written from the '
            'property text, and evaluates the Gallina model on the same cases inside Coq (vm_compute). Known findings (genuine '
            'defects of /repo recorded, not repaired) and the fix: commits made in /repo are in known_findings.json; seeded '
            'changes used to measure detection are under seeded/ (96, all caught by the quick tier). Honours VERIF_SEED / '
            'VERIF_TIER. Expected durations: quick 3-45 s per property; thorough up to about 26 min (C17), see DESIGN.md 10.2.'
        ),
    }
    (ROOT / 'MANIFEST.json').write_text(json.dumps(doc, indent=1) + '\n')


if __name__ == '__main__':
    main()
