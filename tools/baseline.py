#!/usr/bin/env python3
"""Run the repository's baseline test command on a tree (default /repo) and compare with BASELINE.json stable_pass."""
import json, subprocess, sys, tempfile, xml.etree.ElementTree as ET, os
tree = sys.argv[1] if len(sys.argv) > 1 else '/repo'
base = json.load(open('/root/.vp/BASELINE.json'))
stable = base['stable_pass']
if isinstance(stable, str):
    stable = eval(stable)
out = tempfile.mktemp(suffix='.xml', dir='/var/tmp')
env = dict(os.environ, PYTHONPATH=tree)
env.pop('FORML_VERIF', None)
subprocess.run(f'cd {tree} && /venv/bin/python -m pytest -ra -q -p no:cacheprovider --timeout=900 --continue-on-collection-errors --junitxml={out} > {out}.log 2>&1', shell=True, env=env)
passed = set()
for case in ET.parse(out).getroot().iter('testcase'):
    if not any(ch.tag in ('failure', 'error', 'skipped') for ch in case):
        passed.add(f"{case.get('classname')}::{case.get('name')}")
missing = [t for t in stable if t not in passed]
print(f'stable_pass={len(stable)} passed_now={len(passed)} missing={len(missing)}')
for t in missing:
    print('  MISSING', t)
os.unlink(out)
sys.exit(1 if missing else 0)
