#!/usr/bin/env python3
"""Print the prompt for a mutation-seeding sub-agent (property text only - nothing from /verif)."""
import json, sys
pid = sys.argv[1]
prop = next(json.loads(l) for l in open('/verif/properties.jsonl') if json.loads(l)['id'] == pid)
import os
base = os.environ.get('SEEDBASE', '/tmp/seed')
wt = f'{base}/{pid}'
out = f'{base}/out_{pid}'
print(f"""You are testing how well a verification effort detects realistic regressions in the Python project formlio/forml (an ML lifecycle framework). You have your own scratch git worktree of the project at {wt} (detached HEAD). Work ONLY inside {wt} and write deliverables to {out}. Never read or touch /repo, /verif, or other directories under {base}. Never use `git stash` (the stash is shared between worktrees). Run python as `cd {wt} && PYTHONPATH={wt} /venv/bin/python -W ignore ...` (check `import forml; forml.__file__` points into {wt}). There is no network.

The semantic property under study ({pid}: {prop['title']}):

STATEMENT: {prop['statement']}

QUANTIFIED OVER: {prop['quantifier']['text']}

WHY EXISTING TESTS CANNOT SETTLE IT: {prop['why_tests_cant']}

RELEVANT FILES: {', '.join(prop['anchors']['files'])}
MECHANISMS: {json.dumps(prop['anchors']['mechanism'])}

YOUR TASK: produce TWO different, independent small source changes (mutations) to forml (under {wt}/forml) each of which BREAKS this property while the project still imports and the EXISTING test suite still passes. The mutations should look like plausible developer mistakes or plausible "refactorings" (off-by-one, wrong operator, swapped arguments, dropped rollback, wrong ordering, stale cache, mishandled edge value...), and should need something SPECIFIC to manifest: an unusual input, a multi-step sequence of operations, a particular order, an edge value, or two cooperating sites that each look fine alone - NOT something ordinary use would expose at once. Prefer subtle semantic slips deep in a less-travelled branch over blunt ones (a change that makes the common path visibly wrong is of no use). The two mutations should hit different mechanisms of the property if possible.

For each mutation i in {{A, B}} deliver in {out}:
  - patch{{i}}.diff : `git -C {wt} diff` of ONLY that mutation (start each from a clean tree: `git -C {wt} checkout -- .`)
  - demo{{i}}.py : a standalone script (run as `cd <tree> && PYTHONPATH=<tree> /venv/bin/python -W ignore demo{{i}}.py` with <tree> given as sys.argv[1] or the cwd) that exercises the REAL forml code through its public API and exits 0 when the property holds, and exits 1 (printing what went wrong) when it is violated. It must exit 0 on the unmodified tree and 1 with the patch applied. Verify both yourself.
  - notes{{i}}.md : which part of the property it breaks, what is needed for it to manifest, and the exact commands you ran with their results.
You must confirm the existing tests still pass with each mutation: first run the directly relevant test directories, e.g. `cd {wt} && PYTHONPATH={wt} /venv/bin/python -m pytest -q -p no:cacheprovider --timeout=900 tests/<dir>`; then run the whole suite once per mutation: `cd {wt} && PYTHONPATH={wt} /venv/bin/python -m pytest -q -p no:cacheprovider --timeout=900 --continue-on-collection-errors -ra tests 2>&1 | tail -60` (no -x; some tests fail already on the unmodified tree: the reference list of tests that must keep passing is the 'stable_pass' list in /root/.vp/BASELINE.json, and 'always_fail'/'flaky' lists there may be ignored). The full suite takes about 8-9 minutes. A mutation that makes any stable_pass test fail is not acceptable - refine it.
Leave the worktree clean (`git -C {wt} checkout -- .`) when done. Final answer: a short summary of the two mutations and the file paths.""")
