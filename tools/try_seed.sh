#!/bin/bash
# tools/try_seed.sh <PID> <patch.diff> [tier]  - apply a seeded change to /repo, run the check, undo, print the verdict
pid=$1; patch=$2; tier=${3:-quick}
cd /repo || exit 2
if ! git diff --quiet; then echo "/repo not clean"; exit 2; fi
git apply "$patch" || { echo "patch does not apply"; exit 2; }
cd /verif
out=$(./check "$pid" --tier "$tier" 2>/dev/null | grep -E "^\[|VIOLATION|KNOWN" )
rc=$?
git -C /repo checkout -- .
echo "$out"
f=$(echo "$out" | grep -o 'replay=[^ ]*' | head -1 | cut -d= -f2)
if [ -n "$f" ]; then python3 -c "
import json,sys; d=json.load(open('$f')); d.pop('proof_log',None); print(json.dumps(d)[:700])"; rm -f "$f"; fi
