#!/bin/bash
# tools/try_seed_wt.sh <PID> <patch.diff> [owner-check] - triage a seeded change WITHOUT touching /repo or /verif's build:
# applies the patch to the agent's scratch worktree ($SEEDBASE/<PID>), runs the check from a private copy of /verif
# (/var/tmp/vc_<PID>) with VERIF_REPO pointing at the worktree, reverts. The authoritative run is tools/seed_sweep.py on /repo.
pid=$1; patch=$2; chk=${3:-$pid}
base=${SEEDBASE:-/tmp/seed6}; wt=$base/$pid; vc=/var/tmp/vc_$pid
git -C $wt checkout -q -- . || exit 2
rsync -a --delete --exclude=.git --exclude=replays --exclude=seeded /verif/ $vc/ || exit 2
git -C $wt apply "$patch" || { echo "patch does not apply"; exit 2; }
cd $vc
out=$(VERIF_REPO=$wt ./check "$chk" --tier quick 2>/dev/null | grep -E "^\[|VIOLATION|KNOWN")
git -C $wt checkout -q -- .
echo "$out" | cut -c1-260
f=$(echo "$out" | grep -o 'replay=[^ ]*' | head -1 | cut -d= -f2)
if [ -n "$f" ]; then python3 -c "
import json,sys; d=json.load(open('$f')); d.pop('proof_log',None); print(json.dumps(d)[:600])"; fi
