#!/usr/bin/env python3
"""Refresh the generated tables of DESIGN.md section 10 (between the BEGIN/END markers) from the data files:
tools/mkmanifest.py CHECKS, known_findings.json, seeded/*/meta.json, coq/Properties/*.v, git log of /repo."""
import importlib.util
import json
import pathlib
import re
import subprocess

ROOT = pathlib.Path('/verif')


def load_checks():
    spec = importlib.util.spec_from_file_location('mkmanifest', ROOT / 'tools' / 'mkmanifest.py')
    mod = importlib.util.module_from_spec(spec)
    spec.loader.exec_module(mod)
    return mod.CHECKS, mod.TITLES


def theorems(pid):
    text = (ROOT / 'coq' / 'Properties' / f'{pid}.v').read_text()
    return re.findall(r'^Theorem\s+(\w+)', text, re.M)


def status_table():
    checks, titles = load_checks()
    lines = ['| id | theorems in `coq/Properties/<id>.v` (suffix `_partial` / `_refuted` as defined in 2.2) | model / proof files | correspondence driver |',
             '|---|---|---|---|']
    for pid in sorted(checks):
        th = theorems(pid)
        files = sorted(p.name for d in ('Model', 'Proofs') for p in (ROOT / 'coq' / d).glob(f'{pid}*.v'))
        drv = sorted(p.name for p in (ROOT / 'harness' / 'impl').glob(f'{pid.lower()}*.py'))
        lines.append(f"| {pid} | {', '.join('`' + t.replace(pid + '_', '') + '`' for t in th)} | {', '.join(files)} | props/{pid.lower()}.py; impl/{', '.join(drv) or '(in props)'} |")
    return '\n'.join(lines)


def fixes_table():
    d = json.loads((ROOT / 'known_findings.json').read_text())
    log = subprocess.run('git -C /repo log --format="%h %s"', shell=True, capture_output=True, text=True).stdout.splitlines()
    subj = {l.split()[0]: l.split(' ', 1)[1] for l in log}
    lines = ['| commit | found by | what failed on the pinned tree |', '|---|---|---|']
    for f in d['fixed']:
        what = re.sub(r'^fixed: property=\S+ \S+ ', '', f['what'])
        lines.append(f"| `{f['commit']}` {subj.get(f['commit'], '')} | {f['property']} | {what} |")
    return '\n'.join(lines)


def findings_table():
    d = json.loads((ROOT / 'known_findings.json').read_text())
    lines = ['| signature | what fails (and why it is recorded rather than repaired) |', '|---|---|']
    for f in d['known']:
        lines.append(f"| `{f['signature']}` | {f['what']} |")
    return '\n'.join(lines)


def seeds_table():
    lines = ['| seeded change | files | needs, to manifest | quick check result |', '|---|---|---|---|']
    for d in sorted((ROOT / 'seeded').iterdir()):
        if not (d / 'meta.json').exists():
            continue
        m = json.loads((d / 'meta.json').read_text())
        res = 'caught by ' + ', '.join(m['detected_by']) if m['detected'] else '**missed**'
        rep = next((r['reported'] for r in m['result'] if r['violation']), '') or ''
        lines.append(f"| {d.name} | {', '.join(m['files_touched'])} | {m['what_it_needs_to_manifest'][:260]} | {res}: {rep[:200]} |")
    return '\n'.join(lines)


def main():
    path = ROOT / 'DESIGN.md'
    text = path.read_text()
    for key, fn in (('STATUS', status_table), ('FIXES', fixes_table), ('FINDINGS', findings_table), ('SEEDS', seeds_table)):
        begin, end = f'<!-- BEGIN:{key} -->', f'<!-- END:{key} -->'
        if begin in text:
            a, b = text.index(begin) + len(begin), text.index(end)
            text = text[:a] + '\n' + fn() + '\n' + text[b:]
    path.write_text(text)


if __name__ == '__main__':
    main()
