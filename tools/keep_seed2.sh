#!/bin/bash
# tools/keep_seed2.sh <PID> <A|B> <destletter> <tests-subdir...>  - round-2 variant of keep_seed.sh (worktrees under /tmp/seed2)
pid=$1; x=$2; y=$3; shift 3
base=${SEEDBASE:-/tmp/seed2}; wt=$base/$pid; out=$base/out_$pid; dst=/verif/seeded/${pid}_$y
git -C $wt checkout -q -- . || exit 2
cd $wt
PYTHONPATH=$wt timeout 1200 /venv/bin/python -W ignore $out/demo$x.py $wt > $base/demo_clean_$pid$x.log 2>&1; rc_clean=$?
git -C $wt apply $out/patch$x.diff || { echo "patch failed"; exit 2; }
PYTHONPATH=$wt timeout 1200 /venv/bin/python -W ignore $out/demo$x.py $wt > $base/demo_mut_$pid$x.log 2>&1; rc_mut=$?
tests_rc=skipped
if [ $# -gt 0 ]; then
  PYTHONPATH=$wt timeout 1500 /venv/bin/python -m pytest -q -p no:cacheprovider --timeout=900 "$@" > $base/tests_$pid$x.log 2>&1; tests_rc=$?
  tail -1 $base/tests_$pid$x.log
fi
git -C $wt checkout -q -- .
echo "$pid $x->$y demo clean rc=$rc_clean mutated rc=$rc_mut tests rc=$tests_rc"
if [ $rc_clean -eq 0 ] && [ $rc_mut -ne 0 ]; then
  mkdir -p $dst; cp $out/patch$x.diff $dst/patch.diff; cp $out/demo$x.py $dst/demo.py; cp $out/notes$x.md $dst/notes.md
  echo "{\"rc_clean\": $rc_clean, \"rc_mutated\": $rc_mut, \"tests\": \"$*\", \"tests_rc\": \"$tests_rc\", \"round\": ${ROUND:-4}}" > $dst/confirm.json
  echo kept
fi
